package main

import (
	"bytes"
	"crypto"
	"crypto/x509"
	"crypto/x509/pkix"
	"encoding/asn1"
	"fmt"
	"sync"

	"github.com/gr33nbl00d/caddy-revocation-validator/core"
	"github.com/gr33nbl00d/caddy-revocation-validator/core/verifhook"
	"github.com/gr33nbl00d/caddy-revocation-validator/crl/crlloader"
	"go.uber.org/zap"

	"math/big"
	"net/http"
	"net/http/httptest"
	"os"
	"os/exec"
	"path/filepath"
	"regexp"
	"runtime"
	"runtime/debug"
	"strconv"
	"strings"
	"sync/atomic"
	"time"
)

func init() {
	register("C17", runC17)
	if spec := os.Getenv("VERIF_C17_CHILD"); spec != "" {
		// child role: one download through the real loader in a process of its own, so that the allocation volume measured is
		// the loader's and nobody else's (TotalAlloc is process-wide: in the parent, servers, stores still settling and other
		// goroutines would be counted too)
		f := strings.SplitN(spec, "|", 3) // kind | url or file | target
		loc := &core.CRLLocations{}
		switch f[0] {
		case "url":
			loc.CRLUrl = f[1]
		case "cdp":
			loc.CRLDistributionPoints = []string{"ldap://directory.example/cn=crl", f[1]}
		case "file":
			loc.CRLFile = f[1]
		}
		loader, err := crlloader.DefaultCRLLoaderFactory{}.CreatePreferredCrlLoader(loc, zap.NewNop())
		if err != nil {
			fmt.Println("C17CHILD err", err)
			os.Exit(0)
		}
		var a, b runtime.MemStats
		runtime.GC()
		runtime.ReadMemStats(&a)
		lerr := loader.LoadCRL(f[2])
		runtime.ReadMemStats(&b)
		fmt.Printf("C17CHILD alloc=%d err=%v\n", b.TotalAlloc-a.TotalAlloc, lerr)
		os.Exit(0)
	}
}

// c17BuildCRLFile writes a CRL with n entries (serials base+1..base+n) signed by ca to path and returns the probes.
func c17BuildCRLFile(ca *CA, n int, pemEnc bool, path string) (listed, unlisted *big.Int) {
	base := new(big.Int).Lsh(big.NewInt(1), 70)
	spec := CRLSpec{Version: 1, Alg: sigAlgs[7], IssuerRaw: ca.Cert.RawSubject, ThisUpdate: time.Now().Add(-time.Hour).UTC().Truncate(time.Second),
		Signer: ca.Key, Exts: [][]byte{derExt(oidCRLNumber, false, derInt(big.NewInt(int64(n))))}}
	nu := time.Now().Add(24 * time.Hour).UTC().Truncate(time.Second)
	spec.NextUpdate = &nu
	spec.Entries = make([]EntrySpec, n)
	for i := 0; i < n; i++ {
		spec.Entries[i] = EntrySpec{Serial: new(big.Int).Add(base, big.NewInt(int64(i+1))), Time: spec.ThisUpdate}
	}
	der, _ := spec.Build()
	out := der
	if pemEnc {
		out = pemEncode("X509 CRL", der, false)
	}
	must(os.WriteFile(path, out, 0600))
	return new(big.Int).Add(base, big.NewInt(int64(n))), new(big.Int).Add(base, big.NewInt(int64(n+5)))
}

var c17ChildRe = regexp.MustCompile(`C17CHILD alloc=(\d+) err=(.*)`)

const c17QuietSlack = 6 << 20

// c17QuietGrowth: growth of the heap peak outside of the parsing phase from the small to the large list, each peak taken above
// the heap the process had when the measured run started (what the harness itself still holds - buffers of the generator, the
// previous validator's LevelDB caches - is in that baseline: 8 vs 20 MB for the PEM file pair of the thorough tier, which the
// first version attributed to the code under test).
func c17QuietGrowth(a, b c17Result) int64 {
	above := func(x c17Result) int64 {
		if x.PeakQuiet < x.Baseline {
			return 0
		}
		return int64(x.PeakQuiet - x.Baseline)
	}
	return above(b) - above(a)
}

const c17Ceiling = 192 << 20
const c17Deadline = 300 * time.Second

// c17SerialNoLF: the i-th serial of a list none of whose octets is 0x0A (digits of i in base 254, shifted past 0x0A).
func c17SerialNoLF(i int) *big.Int {
	b := []byte{0x41, 0, 0, 0, 0}
	for k := len(b) - 1; k >= 1; k-- {
		d := byte(i % 254)
		i /= 254
		d++ // 1..254
		if d >= 0x0A {
			d++
		}
		b[k] = d
	}
	return new(big.Int).SetBytes(b)
}

// c17BuildNoLFFile writes a well-formed RSA-signed v1 CRL with about n entries that contains no 0x0A octet before its
// signature value (names, times, serials and every length field avoid it): the first "line" of such a DER file is the file.
func c17BuildNoLFFile(ca *CA, n int, path string) (listed, unlisted *big.Int, entries int) {
	for try := 0; try < 60; try++ {
		m := n + try
		spec := CRLSpec{Version: 0, Alg: sigAlgs[2], AlgParams: true, IssuerRaw: ca.Cert.RawSubject,
			ThisUpdate: time.Date(2026, 1, 2, 3, 4, 5, 0, time.UTC), Signer: ca.Key}
		nu := time.Date(2036, 1, 2, 3, 4, 5, 0, time.UTC)
		spec.NextUpdate = &nu
		spec.Entries = make([]EntrySpec, m)
		for i := 0; i < m; i++ {
			spec.Entries[i] = EntrySpec{Serial: c17SerialNoLF(i + 1), Time: spec.ThisUpdate}
		}
		der, _ := spec.Build()
		if idx := bytes.IndexByte(der, 0x0A); idx >= 0 && idx < len(der)-600 {
			continue
		}
		must(os.WriteFile(path, der, 0600))
		return c17SerialNoLF(m), c17SerialNoLF(m + 7), m
	}
	panic("c17BuildNoLFFile: no 0x0A-free encoding found")
}

type c17Result struct {
	N         int
	PeakRaw   uint64 // highest HeapAlloc seen by the fast sampler (includes garbage not yet collected; GC percent is 20)
	PeakQuiet uint64 // the same, restricted to the phases in which the CRL is not being parsed (download, detection, first pass, swap)
	PeakLive  uint64
	Baseline  uint64
	Seconds   float64
	Verdicts  string
}

// c17Measure runs download -> parse -> store(disk) -> lookup for the CRL in path and samples the live heap.
func c17Measure(r *Run, ca *CA, n int, pemEnc, viaHTTP bool) (c17Result, error) {
	dir := scratchDir("c17")
	defer os.RemoveAll(dir)
	crlPath := filepath.Join(dir, "big.crl")
	listed, unlisted := c17BuildCRLFile(ca, n, pemEnc, crlPath)
	signer := writeFile(dir, "signer.pem", certPEM(ca.Cert))
	work := filepath.Join(dir, "work")
	must(os.Mkdir(work, 0700))
	cfg := VCfg{Mode: "crl_only", WorkDir: work, Storage: "disk", TrustedSigners: []string{signer}, UpdateInterval: "10h"}
	var srv *httptest.Server
	if viaHTTP {
		srv = httptest.NewServer(http.HandlerFunc(func(w http.ResponseWriter, req *http.Request) { http.ServeFile(w, req, crlPath) }))
		defer srv.Close()
		cfg.CRLUrls = []string{srv.URL + "/big.crl"}
	} else {
		cfg.CRLFiles = []string{crlPath}
	}
	leafListed := ca.IssueLeaf(LeafOpts{Serial: listed})
	leafFree := ca.IssueLeaf(LeafOpts{Serial: unlisted})
	return c17Sampled(r, n, fmt.Sprintf("pem=%v http=%v", pemEnc, viaHTTP), func() (string, error) {
		v, err := Provision(cfg)
		if err != nil {
			return "", err
		}
		a, _ := v.Verify([][]*x509.Certificate{{leafListed.Cert, ca.Cert}})
		b, _ := v.Verify([][]*x509.Certificate{{leafFree.Cert, ca.Cert}})
		v.Close()
		return a + "/" + b, nil
	})
}

// c17MeasureNoLF: the same path for the 0x0A-free DER CRL (file source): PEM detection looks at "the first line".
func c17MeasureNoLF(r *Run, n int) (c17Result, error) {
	raw := mustMarshal(pkix.RDNSequence{{pkix.AttributeTypeAndValue{Type: asn1.ObjectIdentifier{2, 5, 4, 3}, Value: "C17 noLF CA"}}})
	c17NoLFOnce.Do(func() { c17NoLFCA = NewCA(CAOpts{RawSubject: raw}) })
	ca := c17NoLFCA
	dir := scratchDir("c17n")
	defer os.RemoveAll(dir)
	crlPath := filepath.Join(dir, "nolf.crl")
	listed, unlisted, m := c17BuildNoLFFile(ca, n, crlPath)
	signer := writeFile(dir, "signer.pem", certPEM(ca.Cert))
	work := filepath.Join(dir, "work")
	must(os.Mkdir(work, 0700))
	cfg := VCfg{Mode: "crl_only", WorkDir: work, Storage: "disk", TrustedSigners: []string{signer}, UpdateInterval: "10h", CRLFiles: []string{crlPath}}
	leafListed := ca.IssueLeaf(LeafOpts{Serial: listed})
	leafFree := ca.IssueLeaf(LeafOpts{Serial: unlisted})
	return c17Sampled(r, m, "nolf", func() (string, error) {
		v, err := Provision(cfg)
		if err != nil {
			return "", err
		}
		a, _ := v.Verify([][]*x509.Certificate{{leafListed.Cert, ca.Cert}})
		b, _ := v.Verify([][]*x509.Certificate{{leafFree.Cert, ca.Cert}})
		v.Close()
		return a + "/" + b, nil
	})
}

var (
	c17NoLFOnce sync.Once
	c17NoLFCA   *CA
)

// c17Sampled runs f while sampling the live heap (forced GC), with the ceiling and the deadline of c17Measure.
func c17Sampled(r *Run, n int, label string, f func() (string, error)) (c17Result, error) {
	old := debug.SetGCPercent(20)
	defer debug.SetGCPercent(old)
	runtime.GC()
	runtime.GC()
	var ms runtime.MemStats
	runtime.ReadMemStats(&ms)
	res := c17Result{N: n, Baseline: ms.HeapAlloc}
	var stop int32
	var peak uint64
	tStart := time.Now()
	doneS := make(chan struct{})
	go func() {
		defer close(doneS)
		var m runtime.MemStats
		for atomic.LoadInt32(&stop) == 0 {
			runtime.GC()
			runtime.ReadMemStats(&m)
			if m.HeapAlloc > atomic.LoadUint64(&peak) {
				atomic.StoreUint64(&peak, m.HeapAlloc)
			}
			if time.Since(tStart) > c17Deadline || m.HeapAlloc > res.Baseline+c17Ceiling {
				r.Violate("C17 memory-grows-with-entries "+label, fmt.Sprintf("live heap %d MiB after %v while processing a CRL with %d entries (baseline %d MiB); run aborted",
					m.HeapAlloc>>20, time.Since(tStart).Round(time.Second), n, res.Baseline>>20), map[string]interface{}{"N": n, "live": m.HeapAlloc})
				r.Abort()
			}
			time.Sleep(5 * time.Millisecond)
		}
	}()
	// phases: "quiet" = from the start of a load or refresh until the reader has handed the CRL's meta data to the store
	// (download, PEM detection, first pass over the file, whatever else is done with the downloaded file before it is
	// streamed), and again after each swap; "parsing" in between. A reader that streams needs nothing but small buffers in the
	// quiet phases, whatever N is.
	var phase atomic.Int32 // 0 quiet, 1 parsing
	verifhook.SetCallback(func(name string) {
		switch name {
		case "ldb.put.meta":
			phase.Store(1)
		case "repo.load.after-swap", "repo.refresh.after-swap":
			runtime.GC() // what the parse left behind is not the next phase's
			phase.Store(0)
		}
	})
	defer verifhook.SetCallback(nil)
	var quietPeak uint64
	// a second, fast sampler without forced collections: a buffer that lives for a few milliseconds only (a whole file read
	// into memory and dropped again) never survives to a forced collection, but it is in HeapAlloc while it exists
	var rawPeak uint64
	doneR := make(chan struct{})
	go func() {
		defer close(doneR)
		var m runtime.MemStats
		for atomic.LoadInt32(&stop) == 0 {
			runtime.ReadMemStats(&m)
			if m.HeapAlloc > atomic.LoadUint64(&rawPeak) {
				atomic.StoreUint64(&rawPeak, m.HeapAlloc)
			}
			if phase.Load() == 0 && m.HeapAlloc > atomic.LoadUint64(&quietPeak) {
				atomic.StoreUint64(&quietPeak, m.HeapAlloc)
			}
			time.Sleep(300 * time.Microsecond)
		}
	}()
	t0 := time.Now()
	verdicts, err := f()
	res.Seconds = time.Since(t0).Seconds()
	atomic.StoreInt32(&stop, 1)
	<-doneS
	<-doneR
	res.PeakLive = atomic.LoadUint64(&peak)
	res.PeakRaw = atomic.LoadUint64(&rawPeak)
	res.PeakQuiet = atomic.LoadUint64(&quietPeak)
	res.Verdicts = verdicts
	return res, err
}

func runC17(r *Run) {
	r.rule = "full path download -> parse -> store(disk) -> lookup on CRLs with N and 10N entries (DER/PEM, file/HTTP), live heap sampled after forced GC; " +
		"a pair (N, 10N) is one case, non-trivial when both loads succeed and the listed serial is rejected; peak(10N) - peak(N) must stay below a fixed slack"
	ca := NewCA(CAOpts{CN: "C17 CA", EC: true})
	small, large := 50000, 500000
	combos := [][2]bool{{false, true}, {true, false}} // (pem, http)
	if r.Thorough() {
		small, large = 100000, 1000000
		combos = [][2]bool{{false, true}, {true, false}, {false, false}, {true, true}}
	}
	const slack = 24 << 20
	for _, c := range combos {
		name := fmt.Sprintf("pem=%v http=%v", c[0], c[1])
		a, errA := c17Measure(r, ca, small, c[0], c[1])
		b, errB := c17Measure(r, ca, large, c[0], c[1])
		ok := errA == nil && errB == nil && a.Verdicts == "reject/accept" && b.Verdicts == "reject/accept"
		r.Eval(name, ok)
		r.Count("combo:" + name)
		growth := int64(b.PeakLive) - int64(a.PeakLive)
		r.Sample(map[string]interface{}{"combo": name, "small": a, "large": b, "growth_bytes": growth, "err_small": fmt.Sprint(errA), "err_large": fmt.Sprint(errB)})
		// the model's statement for the same documents: requests bounded by the cap, whatever N (checked by the Lean theorem);
		// here: what the driver predicts for the maximal request on a small document of the same shape
		if ok && c17QuietGrowth(a, b) > c17QuietSlack {
			r.Violate("C17 memory-grows-with-entries phase=before-parsing "+name, fmt.Sprintf("outside of the parsing phase (download, PEM detection, first pass, swap) the heap peaked at %d MiB for N=%d and %d MiB for N=%d: something holds the downloaded CRL in memory",
				a.PeakQuiet>>20, small, b.PeakQuiet>>20, large), map[string]interface{}{"small": a, "large": b})
		}
		if !ok {
			r.Violate("C17 large-crl-not-processed "+name, fmt.Sprintf("N=%d: %v %s; N=%d: %v %s", small, errA, a.Verdicts, large, errB, b.Verdicts), nil)
			continue
		}
		if growth > slack {
			r.Violate("C17 memory-grows-with-entries "+name, fmt.Sprintf("peak live heap %d MiB at N=%d vs %d MiB at N=%d (growth %d MiB > slack %d MiB)",
				a.PeakLive>>20, small, b.PeakLive>>20, large, growth>>20, slack>>20), map[string]interface{}{"small": a, "large": b})
		}
	}
	// a DER CRL without any 0x0A octet before its signature (the PEM detection reads "the first line" of the file)
	{
		// both sizes are large enough to fill the store's own buffers, so the legitimate difference is small and the slack can
		// be tight: 0.5 vs 1.2 (1 vs 2.4) million entries, files of 14 vs 33 (28 vs 67) MB
		a, errA := c17MeasureNoLF(r, large)
		b, errB := c17MeasureNoLF(r, large*12/5)
		const slack = 10 << 20
		ok := errA == nil && errB == nil && a.Verdicts == "reject/accept" && b.Verdicts == "reject/accept"
		r.Eval("der-without-0x0a", ok)
		r.Count("combo:der-without-0x0a")
		growth := int64(b.PeakLive) - int64(a.PeakLive)
		if g := int64(b.PeakRaw) - int64(a.PeakRaw); g > growth {
			growth = g
		}
		r.Sample(map[string]interface{}{"combo": "der without 0x0a, file", "small": a, "large": b, "growth_bytes": growth, "err_small": fmt.Sprint(errA), "err_large": fmt.Sprint(errB)})
		if ok && c17QuietGrowth(a, b) > c17QuietSlack {
			r.Violate("C17 memory-grows-with-entries phase=before-parsing der-without-0x0a", fmt.Sprintf("outside of the parsing phase the heap peaked at %d MiB for N=%d and %d MiB for N=%d: something holds the CRL file in memory",
				a.PeakQuiet>>20, a.N, b.PeakQuiet>>20, b.N), map[string]interface{}{"small": a, "large": b})
		}
		if !ok {
			r.Violate("C17 large-crl-not-processed der-without-0x0a", fmt.Sprintf("N=%d: %v %s; N=%d: %v %s", a.N, errA, a.Verdicts, b.N, errB, b.Verdicts), nil)
		} else if growth > slack {
			r.Violate("C17 memory-grows-with-entries der-without-0x0a", fmt.Sprintf("peak live heap %d MiB at N=%d vs %d MiB at N=%d (growth %d MiB > slack %d MiB)",
				a.PeakLive>>20, a.N, b.PeakLive>>20, b.N, growth>>20, slack>>20), map[string]interface{}{"small": a, "large": b})
		}
	}
	c17Phases(r, ca, small, large)
	// correspondence part: the model's largest request on documents with growing entry counts stays constant
	d, err := NewDriver()
	if err != nil {
		r.Note("model driver unavailable: " + err.Error())
		return
	}
	defer d.Close()
	dir := scratchDir("c17m")
	for _, n := range []int{1, 10, 100, 1000, 3000} {
		p := filepath.Join(dir, "m.crl")
		c17BuildCRLFile(ca, n, false, p)
		der, _ := os.ReadFile(p)
		m, err := modelReadCRL(d, der)
		if err != nil {
			r.Violate("C17 driver-failed", err.Error(), nil)
			return
		}
		ir := implReadCRL(p)
		obs := m.answer
		if mm := c06CompareModel(ir, m, der); mm != "" {
			obs = "MISMATCH impl=" + ir.class + " " + mm
		}
		r.Op(m.opLine, obs)
		r.Eval(fmt.Sprintf("model-n=%d/%x", n, digestOf(crypto.SHA256, der)[:4]), true)
		r.Count("model-maxalloc:" + m.fields["maxalloc"])
	}
}

// c17Phases measures the allocation VOLUME (TotalAlloc, which no sampling can miss) of the phases around the parser, each
// on its own: the download through the real loaders (URL, CDP set, file) and a lookup in the loaded disk store. A phase that
// copies its input through a fixed buffer allocates the same for N and for 10N entries; one that holds the list (or a copy
// of it) in memory allocates in proportion.
func c17Phases(r *Run, ca *CA, small, large int) {
	dir := scratchDir("c17p")
	defer os.RemoveAll(dir)
	files := map[int]string{}
	for _, n := range []int{small, large} {
		p := filepath.Join(dir, fmt.Sprintf("n%d.crl", n))
		c17BuildCRLFile(ca, n, false, p)
		files[n] = p
	}
	srv := httptest.NewServer(http.HandlerFunc(func(w http.ResponseWriter, req *http.Request) {
		http.ServeFile(w, req, filepath.Join(dir, filepath.Base(req.URL.Path)))
	}))
	defer srv.Close()
	const slack = 4 << 20
	for _, kind := range []string{"url", "cdp", "file"} {
		alloc := map[int]uint64{}
		ok := true
		for _, n := range []int{small, large} {
			u := srv.URL + "/" + filepath.Base(files[n])
			target := filepath.Join(dir, fmt.Sprintf("dl-%s-%d", kind, n))
			src := u
			if kind == "file" {
				src = files[n]
			}
			cmd := exec.Command(os.Args[0])
			cmd.Env = append(os.Environ(), "VERIF_C17_CHILD="+kind+"|"+src+"|"+target)
			outB, cerr := cmd.CombinedOutput()
			var childErr string
			var got uint64
			if m := c17ChildRe.FindStringSubmatch(string(outB)); m != nil {
				got, _ = strconv.ParseUint(m[1], 10, 64)
				childErr = m[2]
			} else {
				childErr = fmt.Sprintf("no report from the child: %v %.200s", cerr, outB)
			}
			alloc[n] = got
			want, _ := os.Stat(files[n])
			st, serr := os.Stat(target)
			if childErr != "<nil>" || serr != nil || st.Size() != want.Size() {
				ok = false
				r.Violate("C17 large-crl-not-processed download="+kind, fmt.Sprintf("download of the %d-entry CRL failed: %v %v", n, childErr, serr), nil)
			}
			os.Remove(target)
		}
		r.Eval("phase/download/"+kind, ok)
		r.Count("phase:download:" + kind)
		r.Sample(map[string]interface{}{"phase": "download " + kind, "alloc_small": alloc[small], "alloc_large": alloc[large]})
		if ok && alloc[large] > alloc[small]+slack {
			r.Violate("C17 memory-grows-with-entries phase=download-"+kind, fmt.Sprintf("the %s download allocated %d bytes for %d entries and %d bytes for %d entries (slack %d)",
				kind, alloc[small], small, alloc[large], large, slack), map[string]interface{}{"small": alloc[small], "large": alloc[large]})
		}
	}
}
