package main

// Confusable distribution-point sets (C10, C20): under crl_cdp_strict a certificate is accepted only while a CRL for
// *its* distribution-point set is in force. The sets here differ from a set that was loaded before only by how their
// strings could be glued together (one distribution point spelling two URLs with a separator, a concatenation, a
// prefix), and every location of the second set serves nothing (404 / unparsable). Whatever was loaded for the first
// certificate, the second one has no CRL and must be denied. Implementation-side oracle = that sentence.

import (
	"crypto/x509"
	"fmt"
	"math/big"
	"strings"
)

func c10ConfusableCdpSets(r *Run) {
	origin := NewOrigin()
	defer origin.Close()
	ca := NewCA(CAOpts{CN: "C10 confusable CA", EC: true})
	caFile := writeFile(scratchDir("c10cf"), "ca.pem", certPEM(ca.Cert))
	// no "#" and no "?": a fragment is not sent and the origin ignores the query, so such a location *does* serve the CRL
	seps := []string{" ", ",", ";", "|", "\t", "\n", "\x00", "_", "", "%20", "%23", "\\"}
	type cse struct {
		name          string
		first, second func(a, b string) []string
	}
	var cases []cse
	for _, s := range seps {
		s := s
		cases = append(cases, cse{fmt.Sprintf("pair-then-joined(%q)", s),
			func(a, b string) []string { return []string{a, b} }, func(a, b string) []string { return []string{a + s + b} }})
		cases = append(cases, cse{fmt.Sprintf("pair-then-joined-twice(%q)", s),
			func(a, b string) []string { return []string{a, b} }, func(a, b string) []string { return []string{a + s + b, a + s + b} }})
	}
	cases = append(cases,
		cse{"pair-then-unrelated-pair", func(a, b string) []string { return []string{a, b} }, func(a, b string) []string { return []string{a + "x", b + "x"} }},
		cse{"single-then-extended", func(a, b string) []string { return []string{a} }, func(a, b string) []string { return []string{a + "/" + b} }},
		cse{"pair-then-ldap-twin", func(a, b string) []string { return []string{a, b} }, func(a, b string) []string {
			return []string{strings.Replace(a, "http://", "ldap://", 1), strings.Replace(b, "http://", "ldap://", 1)}
		}},
	)
	storages := []string{"memory", "disk"}
	fetches := []string{"", "fetch_actively"}
	parallel(len(cases), 8, func(i int) {
		c := cases[i]
		storage, fetch := storages[i%2], fetches[(i/2)%2]
		pa, pb := fmt.Sprintf("/c10cf/%d/a.crl", i), fmt.Sprintf("/c10cf/%d/b.crl", i)
		crl := ca.MakeCRL(CRLOpts{Serials: []*big.Int{big.NewInt(5)}, Number: 3})
		origin.SetBytes(pa, crl)
		origin.SetBytes(pb, crl)
		a, b := origin.URL(pa), origin.URL(pb)
		one := ca.IssueLeaf(LeafOpts{Serial: big.NewInt(int64(71000 + i)), CDP: c.first(a, b)})
		two := ca.IssueLeaf(LeafOpts{Serial: big.NewInt(int64(72000 + i)), CDP: c.second(a, b)})
		v, err := Provision(VCfg{Mode: "crl_only", WorkDir: scratchDir("c10cfw"), Storage: storage, SigMode: "verify", TrustedSigners: []string{caFile},
			UpdateInterval: "10h", CDPStrict: true, FetchMode: fetch, NoOCSPConfig: true})
		if err != nil {
			r.Violate("C10 provision-failed", "confusable sets "+c.name+": "+err.Error(), nil)
			return
		}
		defer v.Close()
		v1, _ := v.Verify([][]*x509.Certificate{{one.Cert, ca.Cert}})
		v2, _ := v.Verify([][]*x509.Certificate{{two.Cert, ca.Cert}})
		v2b, _ := v.Verify([][]*x509.Certificate{{two.Cert, ca.Cert}})
		key := fmt.Sprintf("confusable-cdp-sets %s storage=%s fetch=%q", c.name, storage, fetch)
		r.Eval(key, true)
		r.Count("confusable:" + v1 + "/" + v2 + "/" + v2b)
		if v1 != "accept" {
			r.Note("confusable sets: the first certificate (CRL served at both locations) was " + v1 + " (" + key + ")")
		}
		if v2 != "reject" || v2b != "reject" {
			r.Violate("C10 strict-accepted-without-crl-for-its-own-set "+c.name,
				fmt.Sprintf("%s: strict; first certificate with distribution points %q: %s; second certificate with distribution points %q (none of them serves a CRL): %s, again: %s",
					key, c.first(a, b), v1, c.second(a, b), v2, v2b),
				map[string]interface{}{"first_cdps": c.first(a, b), "second_cdps": c.second(a, b), "storage": storage, "fetch": fetch})
		}
	})
}
