package main

// Helpers for the work_dir / lifecycle / crash-consistency checks (C20, C12): sandbox observation (tree snapshots,
// listings, LevelDB LOCK probes, updater goroutines), an origin that answers every path, and the child process
// that performs a load or refresh and dies at a chosen hook hit.

import (
	"bufio"
	"crypto/x509"
	"encoding/hex"
	"encoding/json"
	"fmt"
	"io/fs"
	"math/big"
	"net/http"
	"net/http/httptest"
	"os"
	"os/exec"
	"path/filepath"
	"regexp"
	"runtime"
	"sort"
	"strings"
	"sync"
	"sync/atomic"
	"syscall"
	"time"

	"github.com/gr33nbl00d/caddy-revocation-validator/core/verifhook"
)

// ---- observation ------------------------------------------------------------------------------

// diskTreeSnapshot lists everything below root except the subtree of skip (which itself is listed): path -> kind/size.
func diskTreeSnapshot(root, skip string) map[string]string {
	out := map[string]string{}
	filepath.WalkDir(root, func(p string, d fs.DirEntry, err error) error {
		if err != nil {
			out[p] = "err:" + err.Error()
			return nil
		}
		rel, _ := filepath.Rel(root, p)
		kind := "f"
		if d.IsDir() {
			kind = "d"
		} else if d.Type()&fs.ModeSymlink != 0 {
			kind = "l"
		}
		if kind == "f" {
			if fi, err := d.Info(); err == nil {
				kind = fmt.Sprintf("f:%d", fi.Size())
			}
		}
		out[rel] = kind
		if d.IsDir() && skip != "" && diskSameDir(p, skip) {
			return filepath.SkipDir
		}
		return nil
	})
	return out
}

func diskSameDir(a, b string) bool {
	fa, e1 := os.Stat(a)
	fb, e2 := os.Stat(b)
	return e1 == nil && e2 == nil && os.SameFile(fa, fb)
}

func diskDiffSnapshots(a, b map[string]string) []string {
	var d []string
	for k, v := range a {
		if w, ok := b[k]; !ok {
			d = append(d, "deleted "+k)
		} else if w != v {
			d = append(d, "changed "+k+" "+v+"->"+w)
		}
	}
	for k := range b {
		if _, ok := a[k]; !ok {
			d = append(d, "created "+k)
		}
	}
	sort.Strings(d)
	return d
}

// diskListKinds lists the direct children of dir as "<hex of name>:f|d", sorted by the hex text.
func diskListKinds(dir string) []string {
	es, err := os.ReadDir(dir)
	if err != nil {
		return []string{"err"}
	}
	var out []string
	for _, e := range es {
		k := ":f"
		if e.IsDir() {
			k = ":d"
		}
		out = append(out, hexs([]byte(e.Name()))+k)
	}
	sort.Strings(out)
	return out
}

// diskStoreLocked reports whether some process (this one included) holds the LevelDB LOCK of the directory.
func diskStoreLocked(dir string) bool {
	f, err := os.Open(filepath.Join(dir, "LOCK"))
	if err != nil {
		return false
	}
	defer f.Close()
	if err := syscall.Flock(int(f.Fd()), syscall.LOCK_SH|syscall.LOCK_NB); err != nil {
		return true
	}
	syscall.Flock(int(f.Fd()), syscall.LOCK_UN)
	return false
}

func diskLockedStores(workDir string) []string {
	es, _ := os.ReadDir(workDir)
	var out []string
	for _, e := range es {
		if e.IsDir() && diskStoreLocked(filepath.Join(workDir, e.Name())) {
			out = append(out, hexs([]byte(e.Name())))
		}
	}
	sort.Strings(out)
	return out
}

func diskAllStacks() string {
	buf := make([]byte, 1<<20)
	for {
		n := runtime.Stack(buf, true)
		if n < len(buf) {
			return string(buf[:n])
		}
		buf = make([]byte, 2*len(buf))
	}
}

// diskPluginGoroutines counts goroutines of the plugin: the ticker goroutine of initCRLUpdateTicker and update passes in flight.
func diskPluginGoroutines() (ticker, updating int) {
	for _, g := range strings.Split(diskAllStacks(), "\n\n") {
		if strings.Contains(g, "initCRLUpdateTicker.func1") {
			ticker++
		}
		// (the ticker goroutine runs its first pass inline: it counts as both)
		if strings.Contains(g, "CRLRevocationChecker).updateCRLs") {
			updating++
		}
	}
	return
}

var diskHex64 = regexp.MustCompile(`^[0-9a-f]{64}$`)

// ---- origin that answers every path ---------------------------------------------------------

type DiskAnyOrigin struct {
	srv  *httptest.Server
	mu   sync.Mutex
	beh  Behaviour
	hits int64
}

func NewDiskAnyOrigin() *DiskAnyOrigin {
	o := &DiskAnyOrigin{beh: Behaviour{Kind: "status", Status: 404}}
	o.srv = httptest.NewServer(http.HandlerFunc(func(w http.ResponseWriter, r *http.Request) {
		atomic.AddInt64(&o.hits, 1)
		o.mu.Lock()
		b := o.beh
		o.mu.Unlock()
		switch b.Kind {
		case "drop":
			if hj, ok := w.(http.Hijacker); ok {
				if c, _, err := hj.Hijack(); err == nil {
					c.Close()
					return
				}
			}
			w.WriteHeader(500)
		case "status":
			w.WriteHeader(b.Status)
			w.Write(b.Body)
		default:
			w.Write(b.Body)
		}
	}))
	return o
}

func (o *DiskAnyOrigin) Set(b Behaviour) { o.mu.Lock(); o.beh = b; o.mu.Unlock() }
func (o *DiskAnyOrigin) Base() string    { return o.srv.URL }
func (o *DiskAnyOrigin) Close()          { o.srv.Close() }
func (o *DiskAnyOrigin) Hits() int64     { return atomic.LoadInt64(&o.hits) }

// ---- origin states used by the histories ------------------------------------------------------

// diskOriginState: what a location serves. model() is the `path life` / `disk` spelling.
type diskOriginState struct {
	Kind   string // down garbage truncated badsig good
	Serial int    // number of entries
	Tag    int
}

func (s diskOriginState) model() string {
	switch s.Kind {
	case "down":
		return "down"
	case "garbage":
		return fmt.Sprintf("broken:%d:0:%d", s.Tag, s.Serial)
	case "truncated":
		return fmt.Sprintf("broken:%d:2:%d", s.Tag, s.Serial)
	case "badsig":
		return fmt.Sprintf("doc:%d:%d:false", s.Tag, s.Serial)
	}
	return fmt.Sprintf("doc:%d:%d:true", s.Tag, s.Serial)
}

func diskSerialRange(n int) []*big.Int {
	var out []*big.Int
	for i := 1; i <= n; i++ {
		out = append(out, big.NewInt(int64(i)))
	}
	return out
}

// diskBehaviourFor builds what the origin sends for a state (CRLs issued by ca; bad signature = last byte flipped).
func diskBehaviourFor(ca *CA, s diskOriginState) Behaviour {
	switch s.Kind {
	case "down":
		return Behaviour{Kind: "drop"}
	case "garbage":
		return Behaviour{Kind: "bytes", Body: []byte("<html>this is not a certificate revocation list</html>")}
	}
	der := ca.MakeCRL(CRLOpts{Serials: diskSerialRange(s.Serial), Number: int64(s.Tag + 1)})
	switch s.Kind {
	case "truncated":
		return Behaviour{Kind: "bytes", Body: der[:len(der)*2/3]}
	case "badsig":
		b := append([]byte{}, der...)
		b[len(b)-1] ^= 0x01
		return Behaviour{Kind: "bytes", Body: b}
	}
	return Behaviour{Kind: "bytes", Body: der}
}

// ---- child process (C12) --------------------------------------------------------------------------

// C12Spec tells the child what to do. The child is this very binary, started with VERIF_C12_CHILD=<json>.
type C12Spec struct {
	WorkDir  string `json:"work_dir"`
	SigMode  string `json:"sig_mode"`
	LeafDER  string `json:"leaf"` // hex
	CADER    string `json:"ca"`
	Op       string `json:"op"`      // first | refresh
	DieAt    int    `json:"die_at"`  // die inside the k-th hook hit of the operation (0: never)
	SlowUS   int    `json:"slow_us"` // sleep at every hit (random-instant kill runs)
	Announce bool   `json:"announce"`
}

func init() {
	js := os.Getenv("VERIF_C12_CHILD")
	if js == "" {
		return
	}
	var spec C12Spec
	if err := json.Unmarshal([]byte(js), &spec); err != nil {
		fmt.Println("CHILD-ERROR bad spec:", err)
		os.Exit(4)
	}
	c12Child(spec)
	os.Exit(0)
}

func diskMustCertHex(h string) *x509.Certificate {
	b, err := hex.DecodeString(h)
	must(err)
	c, err := x509.ParseCertificate(b)
	must(err)
	return c
}

// c12Child provisions the real validator on the work_dir, then performs the operation with the hook armed.
func c12Child(spec C12Spec) {
	if os.Getenv("VERIF_DEBUG") == "" {
		if null, err := os.OpenFile("/dev/null", os.O_WRONLY, 0); err == nil {
			syscall.Dup2(int(null.Fd()), 2)
		}
	}
	leaf, ca := diskMustCertHex(spec.LeafDER), diskMustCertHex(spec.CADER)
	chains := [][]*x509.Certificate{{leaf, ca}}
	v, err := Provision(VCfg{Mode: "crl_only", WorkDir: spec.WorkDir, Storage: "disk", SigMode: spec.SigMode, CDPStrict: true, NoOCSPConfig: true})
	if err != nil {
		fmt.Println("CHILD-ERROR provision:", err)
		os.Exit(4)
	}
	checker := v.V.VerifCRLChecker()
	// barrier: the ticker goroutine's initial update pass is over (or will find that one was just done) before the
	// operation under test starts, so the hook hits below belong to that operation alone
	checker.VerifUpdateCRLs(false)
	var n int64
	arm := func() {
		verifhook.SetCallback(func(name string) {
			k := atomic.AddInt64(&n, 1)
			fmt.Printf("HIT %d %s\n", k, name)
			if spec.SlowUS > 0 {
				time.Sleep(time.Duration(spec.SlowUS) * time.Microsecond)
			}
			if spec.DieAt > 0 && int(k) == spec.DieAt {
				// process death: no deferred call, no Close, every completed system call stays visible
				os.Exit(0)
			}
		})
	}
	switch spec.Op {
	case "first":
		arm()
		if spec.Announce {
			fmt.Println("START")
		}
		st, e := checker.IsRevoked(leaf, chains)
		verifhook.SetCallback(nil)
		fmt.Println("DONE", classify(st != nil && st.Revoked, e))
	case "refresh":
		// the entry comes back from disk with the first handshake (no fetch: it is loaded)
		checker.IsRevoked(leaf, chains)
		repo := checker.VerifRepository()
		ids := repo.VerifEntries()
		if len(ids) != 1 {
			fmt.Println("CHILD-ERROR entries:", len(ids))
			os.Exit(4)
		}
		arm()
		if spec.Announce {
			fmt.Println("START")
		}
		// a forced update pass, as a tick would run it (serialised with every other pass by the update mutex)
		checker.VerifUpdateCRLs(true)
		verifhook.SetCallback(nil)
		fmt.Println("DONE", "pass")
	default:
		fmt.Println("CHILD-ERROR unknown op")
		os.Exit(4)
	}
	v.Close()
}

type c12ChildResult struct {
	Hits   []string
	Done   string
	Err    string
	Killed bool
}

// c12RunChild runs the child to its end (or to its chosen death). killAfter > 0: SIGKILL that long after START.
func c12RunChild(spec C12Spec, killAfter time.Duration) c12ChildResult {
	js, _ := json.Marshal(spec)
	cmd := exec.Command(os.Args[0])
	cmd.Env = append(os.Environ(), "VERIF_C12_CHILD="+string(js))
	var res c12ChildResult
	out, err := cmd.StdoutPipe()
	if err != nil {
		res.Err = err.Error()
		return res
	}
	if err := cmd.Start(); err != nil {
		res.Err = err.Error()
		return res
	}
	timer := time.AfterFunc(120*time.Second, func() { cmd.Process.Kill() })
	defer timer.Stop()
	sc := bufio.NewScanner(out)
	for sc.Scan() {
		line := sc.Text()
		switch {
		case strings.HasPrefix(line, "HIT "):
			f := strings.Fields(line)
			if len(f) == 3 {
				res.Hits = append(res.Hits, f[2])
			}
		case strings.HasPrefix(line, "DONE "):
			res.Done = strings.TrimPrefix(line, "DONE ")
		case line == "START":
			if killAfter > 0 {
				d := killAfter
				go func() {
					time.Sleep(d)
					cmd.Process.Signal(syscall.SIGKILL)
				}()
				res.Killed = true
			}
		case strings.HasPrefix(line, "CHILD-ERROR"):
			res.Err = line
		}
	}
	cmd.Wait()
	return res
}

func diskSortedCopy(l []string) []string {
	o := append([]string{}, l...)
	sort.Strings(o)
	return o
}
