package main

// C06 (PEM side): differential stream `pem` for the Lean model Crv.Pem, and the implementation-side
// round-trip oracle.  The real pipeline is the one of crlreader.newHashingPEMCRLReader:
//
//	file -> bufio.Reader -> pemreader.PemReader -> base64.NewDecoder(StdEncoding, &pemReader) -> bufio.Reader
//
// Ops recorded (all arguments hex, "-" = empty):
//
//	pem decode <input>   -> "<decoded bytes> <eof|corrupt|unexpectedEOF|lineTooLong|other:...>"
//	pem ispem  <input>   -> true|false          (pemreader.IsPemFile on a file with that content)
//	pem armour <line>    -> true|false          (IsPemFile on a file holding just that one line)
//	pem encode lf|crlf <label> <der> -> pem.EncodeToMemory output (with \n -> \r\n for crlf)
//	pem b64    <text>    -> "<decoded bytes> <eof|corrupt|unexpectedEOF>"  (base64.NewDecoder over a bytes.Reader;
//	                         text without \r and \n)

import (
	"bufio"
	"bytes"
	"encoding/base64"
	"encoding/pem"
	"errors"
	"fmt"
	"io"
	"os"
	"strings"

	"github.com/gr33nbl00d/caddy-revocation-validator/core/pemreader"
)

func c06PemClassify(err error) string {
	var cie base64.CorruptInputError
	switch {
	case err == io.EOF:
		return "eof"
	case errors.As(err, &cie):
		return "corrupt"
	case err == io.ErrUnexpectedEOF:
		return "unexpectedEOF"
	case strings.Contains(err.Error(), "line was longer"):
		return "lineTooLong"
	}
	t := err.Error()
	t = strings.NewReplacer("\n", "\\n", "\r", "\\r", " ", "_", "\t", "_").Replace(t)
	if len(t) > 80 {
		t = t[:80]
	}
	return "other:" + t
}

// c06PemDrain reads br to its error.  style selects how the consumer asks for data (the ASN.1 parser uses
// Peek of at most 17 bytes, Read into exact-size slices and Discard); the result must not depend on it.
func c06PemDrain(br *bufio.Reader, style int, sizes []int) ([]byte, error) {
	var out []byte
	for i := 0; ; i++ {
		if i > 1<<20 {
			return out, errors.New("no end of stream")
		}
		sz := sizes[i%len(sizes)]
		switch style {
		case 1: // peek first, as PeekTagLength does
			if _, err := br.Peek(1 + i%17); err != nil && br.Buffered() == 0 {
				return out, err
			}
		case 2: // single bytes now and then
			if i%3 == 0 {
				b, err := br.ReadByte()
				if err != nil {
					return out, err
				}
				out = append(out, b)
				continue
			}
		}
		buf := make([]byte, sz)
		n, err := br.Read(buf)
		out = append(out, buf[:n]...)
		if err != nil {
			return out, err
		}
	}
}

func c06PemDecodeWith(input []byte, style int, sizes []int) ([]byte, string) {
	pr := pemreader.NewPemReader(bufio.NewReader(bytes.NewReader(input)))
	dec := base64.NewDecoder(base64.StdEncoding, &pr)
	br := bufio.NewReader(dec)
	out, err := c06PemDrain(br, style, sizes)
	return out, c06PemClassify(err)
}

func c06PemDecode(input []byte) ([]byte, string) {
	return c06PemDecodeWith(input, 0, []int{512})
}

func c06B64Decode(text []byte) ([]byte, string) {
	dec := base64.NewDecoder(base64.StdEncoding, bytes.NewReader(text))
	out, err := c06PemDrain(bufio.NewReader(dec), 0, []int{512})
	return out, c06PemClassify(err)
}

type c06PemFiles struct {
	dir string
	n   int
}

func (p *c06PemFiles) isPem(content []byte) bool {
	p.n++
	path := writeFile(p.dir, "in.pem", content)
	f, err := os.Open(path)
	if err != nil {
		panic(err)
	}
	defer f.Close()
	err, is := pemreader.IsPemFile(f)
	if err != nil {
		panic(err)
	}
	return is
}

// ---- generators ---------------------------------------------------------------------------------------------

type c06PemGen struct{ r *Run }

func (g c06PemGen) n(k int) int { return g.r.Rng.Intn(k) }

func (g c06PemGen) pick(s string) byte { return s[g.n(len(s))] }

func (g c06PemGen) bytes(k int) []byte {
	b := make([]byte, k)
	for i := range b {
		b[i] = byte(g.n(256))
	}
	return b
}

// derLen favours 0, the residues mod 3 and the neighbourhood of 48k (full 64-character lines).
func (g c06PemGen) derLen() int {
	switch g.n(6) {
	case 0:
		return g.n(8)
	case 1:
		k := 48*(1+g.n(8)) + g.n(5) - 2
		if k > 400 {
			k = 400
		}
		return k
	case 2:
		return 3 * g.n(134)
	default:
		return g.n(401)
	}
}

func (g c06PemGen) der() []byte {
	d := g.bytes(g.derLen())
	if len(d) > 0 && g.n(2) == 0 {
		d[0] = 0x30
	}
	return d
}

var c06PemLabels = []string{"X509 CRL", "CERTIFICATE", "X", "", "A B 9", "PKCS7", "RSA PRIVATE KEY", "0", " "}

func (g c06PemGen) label() string { return c06PemLabels[g.n(len(c06PemLabels))] }

func (g c06PemGen) valid(der []byte, crlf bool) []byte {
	b := pem.EncodeToMemory(&pem.Block{Type: g.label(), Bytes: der})
	if crlf {
		b = bytes.ReplaceAll(b, []byte("\n"), []byte("\r\n"))
	}
	return b
}

func (g c06PemGen) eol() string {
	switch g.n(8) {
	case 0:
		return "\r\n"
	case 1:
		return "\r\r\n"
	default:
		return "\n"
	}
}

// armourLine: a correct one most of the time, else a near miss.
func (g c06PemGen) armourLine() string {
	lab := g.label()
	switch g.n(12) {
	case 0:
		return "----------"
	case 1:
		return "-----BEGIN " + strings.ToLower(lab) + "x-----"
	case 2:
		return "----BEGIN " + lab + "-----"
	case 3:
		return "-----BEGIN " + lab + "------"
	case 4:
		return "-----BEGIN " + lab + "----- "
	case 5:
		return " -----END " + lab + "-----"
	case 6:
		return "-----" + strings.Repeat("A", 50+g.n(20)) + "-----" // armour longer than 66 bytes is still skipped
	case 7:
		return "-----BEGIN_" + lab + "-----"
	default:
		if g.n(2) == 0 {
			return "-----BEGIN " + lab + "-----"
		}
		return "-----END " + lab + "-----"
	}
}

func (g c06PemGen) wrap(text string, width int, eol func() string, lastEol bool) string {
	var sb strings.Builder
	for len(text) > 0 {
		k := width
		if k > len(text) {
			k = len(text)
		}
		sb.WriteString(text[:k])
		text = text[k:]
		if len(text) > 0 || lastEol {
			sb.WriteString(eol())
		}
	}
	return sb.String()
}

const c06B64Alphabet = "ABCDEFGHIJKLMNOPQRSTUVWXYZabcdefghijklmnopqrstuvwxyz0123456789+/"

func (g c06PemGen) junkByte() byte {
	switch g.n(10) {
	case 0:
		return '='
	case 1:
		return '-'
	case 2:
		return ' '
	case 3:
		return '\r'
	case 4:
		return '\n'
	case 5:
		return byte(128 + g.n(128))
	case 6:
		return g.pick("_.,:*\t\x00@[`{")
	default:
		return c06B64Alphabet[g.n(64)]
	}
}

func (g c06PemGen) mutate(b []byte) []byte {
	b = append([]byte(nil), b...)
	for k := 1 + g.n(3); k > 0; k-- {
		if len(b) == 0 {
			return append(b, g.junkByte())
		}
		i := g.n(len(b))
		switch g.n(6) {
		case 0: // replace
			b[i] = g.junkByte()
		case 1: // delete
			b = append(b[:i], b[i+1:]...)
		case 2: // insert
			b = append(b[:i], append([]byte{g.junkByte()}, b[i:]...)...)
		case 3: // truncate
			b = b[:i]
		case 4: // duplicate a stretch
			j := i + g.n(70)
			if j > len(b) {
				j = len(b)
			}
			b = append(b[:j], append(append([]byte(nil), b[i:j]...), b[j:]...)...)
		case 5: // bit flip
			b[i] ^= 1 << uint(g.n(8))
		}
	}
	return b
}

// input returns one generated file content and the name of its class.
func (g c06PemGen) input() ([]byte, string) {
	der := g.der()
	enc := base64.StdEncoding.EncodeToString(der)
	one := func(s string) func() string { return func() string { return s } }
	switch g.n(20) {
	case 0, 1:
		return g.valid(der, false), "valid-lf"
	case 2:
		return g.valid(der, true), "valid-crlf"
	case 3:
		b := g.valid(der, g.n(2) == 0)
		return bytes.TrimRight(b, "\r\n"), "no-final-newline"
	case 4: // extra armour lines and blank lines anywhere
		lines := strings.SplitAfter(string(g.valid(der, g.n(3) == 0)), "\n")
		var sb strings.Builder
		for _, l := range lines {
			for g.n(4) == 0 {
				if g.n(2) == 0 {
					sb.WriteString(g.armourLine() + g.eol())
				} else {
					sb.WriteString(g.eol())
				}
			}
			sb.WriteString(l)
		}
		return []byte(sb.String()), "extra-armour-blank"
	case 5: // other line widths, among them 65, 66, 67 characters
		w := []int{1, 2, 3, 4, 5, 7, 8, 60, 62, 63, 64, 65, 66, 67, 68, 76, 100, 1000}[g.n(18)]
		e := "\n"
		if g.n(3) == 0 {
			e = "\r\n"
		}
		body := g.wrap(enc, w, one(e), g.n(4) != 0)
		return []byte("-----BEGIN X509 CRL-----" + e + body + "-----END X509 CRL-----" + e), fmt.Sprintf("width-%d", w)
	case 6: // bare base64, with or without final newline, no armour
		return []byte(g.wrap(enc, 64, g.eol, g.n(2) == 0)), "bare"
	case 7: // one corrupt character in the body
		b := g.valid(der, g.n(4) == 0)
		if len(b) > 60 {
			i := 25 + g.n(len(b)-50)
			b[i] = g.junkByte()
		}
		return b, "corrupt-char"
	case 8: // padding in the middle: two encodings behind each other, broken at different widths
		enc2 := base64.StdEncoding.EncodeToString(g.bytes(1 + g.n(100)))
		w := []int{4, 8, 64, 64, 64, 63, 65, 66, 20}[g.n(9)]
		var body string
		if g.n(2) == 0 {
			body = g.wrap(enc, w, one("\n"), true) + g.wrap(enc2, w, one("\n"), true) // padding ends a line
		} else {
			body = g.wrap(enc+enc2, w, one("\n"), true) // padding inside a line (mostly)
		}
		return []byte("-----BEGIN X509 CRL-----\n" + body + "-----END X509 CRL-----\n"), "padding-middle"
	case 9: // data after END
		b := g.valid(der, false)
		tail := g.wrap(base64.StdEncoding.EncodeToString(g.bytes(g.n(60))), 64, one("\n"), g.n(2) == 0)
		if g.n(3) == 0 {
			tail = "trailing text " + tail
		}
		return append(b, tail...), "after-end"
	case 10: // leading text
		lead := []string{"Some text\n", "CRL of my CA:\n", "\n\n", "abcd\n", "# comment\n", "QUJD\n", "\xef\xbb\xbf"}[g.n(7)]
		return append([]byte(lead), g.valid(der, false)...), "leading-text"
	case 11, 12, 13:
		return g.mutate(g.valid(der, g.n(4) == 0)), "mutated"
	case 14: // noise from a small alphabet
		k := g.n(120)
		b := make([]byte, k)
		for i := range b {
			b[i] = g.pick("--------AAAB=  \r\n\n\n9z")
		}
		return b, "noise"
	case 15: // short texts around the quantum logic: few characters, few lines
		k := g.n(14)
		b := make([]byte, k)
		for i := range b {
			b[i] = g.pick("QUJDRA==\n\n\nx")
		}
		return b, "short"
	case 16: // long lines
		k := []int{64, 65, 66, 67, 100, 4090, 4095, 4096, 4097, 5000}[g.n(10)]
		line := strings.Repeat("QUJD", k/4+1)[:k]
		if g.n(3) == 0 {
			line = "-----" + strings.Repeat("A", k) + "-----"
		}
		e := []string{"\n", "\r\n", ""}[g.n(3)]
		pre := ""
		if g.n(2) == 0 {
			pre = "QUJD\n"
		}
		return []byte(pre + line + e + "QUJE\n"), "long-line"
	case 17: // incomplete last quantum / stripped padding
		b := g.valid(der, false)
		s := strings.Replace(string(b), "=", "", 1+g.n(2))
		return []byte(s), "stripped-padding"
	case 18: // DER, not PEM
		return der, "der"
	default: // header lines as openssl / RFC 1421 write them
		b := g.valid(der, false)
		s := strings.Replace(string(b), "-----\n", "-----\nProc-Type: 4,ENCRYPTED\n\n", 1)
		return []byte(s), "headers"
	}
}

func (g c06PemGen) singleLine() []byte {
	var s string
	switch g.n(4) {
	case 0:
		k := g.n(24)
		b := make([]byte, k)
		for i := range b {
			b[i] = g.pick("-------AZ09 a=\r_")
		}
		s = string(b)
	case 1:
		s = string(g.mutate([]byte(g.armourLine())))
		s = strings.ReplaceAll(s, "\n", "N")
	default:
		s = g.armourLine()
	}
	switch g.n(6) {
	case 0:
	case 1:
		s += "\r\n"
	case 2:
		s += "\r"
	case 3:
		s += "\r\r\n"
	default:
		s += "\n"
	}
	return []byte(s)
}

func (g c06PemGen) b64Text() ([]byte, string) {
	var d []byte
	if g.n(3) == 0 {
		d = g.bytes(768*(1+g.n(3)) + g.n(7) - 3) // around the decoder's 1024-character buffer
	} else {
		d = g.bytes(g.derLen())
	}
	enc := []byte(base64.StdEncoding.EncodeToString(d))
	strip := func(b []byte) []byte {
		return bytes.Map(func(r rune) rune {
			if r == '\r' || r == '\n' {
				return 'N'
			}
			return r
		}, b)
	}
	switch g.n(6) {
	case 0:
		return enc, "valid"
	case 1:
		return strip(g.mutate(enc)), "mutated"
	case 2: // two texts behind each other: padding in the middle
		return append(enc, base64.StdEncoding.EncodeToString(g.bytes(1+g.n(50)))...), "padding-middle"
	case 3:
		return bytes.TrimRight(enc, "="), "stripped-padding"
	case 4:
		if len(enc) > 0 {
			return enc[:g.n(len(enc))], "truncated"
		}
		return enc, "truncated"
	default:
		if len(enc) > 0 {
			enc[g.n(len(enc))] = g.junkByte()
		}
		return strip(enc), "corrupt-char"
	}
}

// ---- stream -------------------------------------------------------------------------------------------------

func c06PemStream(r *Run) {
	g := c06PemGen{r}
	files := &c06PemFiles{dir: scratchDir("c06pem")}
	defer os.RemoveAll(files.dir)

	nDecode, nArmour, nB64, nEncode := 1000, 300, 200, 100
	if r.Thorough() {
		nDecode, nArmour, nB64, nEncode = 30000, 6000, 4000, 2000
	}

	// implementation-side oracle + model ops on valid files of every length 0..100 and the targeted lengths
	oracle := func(der []byte, crlf bool) {
		in := g.valid(der, crlf)
		out, end := c06PemDecode(in)
		ok := bytes.Equal(out, der) && end == "eof"
		r.Eval(fmt.Sprintf("rt/%d/%v/%x", len(der), crlf, c06PemFirstN(der, 8)), len(der) > 0)
		if !ok {
			r.Violate("C06 pem-round-trip", fmt.Sprintf("der %d bytes crlf=%v: decoded %d bytes, end %s", len(der), crlf, len(out), end),
				map[string]interface{}{"input": hexs(in), "der": hexs(der)})
		}
		if !files.isPem(in) {
			r.Violate("C06 pem-detected", "pem.EncodeToMemory output is not detected as PEM", map[string]interface{}{"input": hexs(in)})
		}
		// the consumer's read pattern must not matter
		for style := 0; style < 3; style++ {
			o2, e2 := c06PemDecodeWith(in, style, []int{1 + g.n(9), 1 + g.n(600), 4096 + g.n(3000)})
			if !bytes.Equal(o2, out) || e2 != end {
				r.Violate("C06 pem-read-pattern", fmt.Sprintf("style %d: %d bytes/%s instead of %d bytes/%s", style, len(o2), e2, len(out), end),
					map[string]interface{}{"input": hexs(in)})
			}
		}
	}
	for n := 0; n <= 100; n++ {
		oracle(g.bytes(n), n%2 == 1)
	}
	for k := 1; k <= 8; k++ {
		for d := -1; d <= 1; d++ {
			oracle(g.bytes(48*k+d), false)
			oracle(g.bytes(48*k+d), true)
		}
	}

	for i := 0; i < nDecode; i++ {
		in, class := g.input()
		out, end := c06PemDecode(in)
		r.Op("pem decode "+hexs(in), hexs(out)+" "+end)
		is := files.isPem(in)
		r.Op("pem ispem "+hexs(in), fmt.Sprint(is))
		r.Count("decode/" + class + "/" + strings.SplitN(end, ":", 2)[0])
		r.Count(fmt.Sprintf("ispem/%v", is))
		r.Eval(fmt.Sprintf("decode/%x", in), len(in) > 0)
		if strings.HasPrefix(end, "other:") {
			r.Violate("C06 pem-unmodelled-error", end, map[string]interface{}{"input": hexs(in)})
		}
		// the consumer's read pattern must not matter (the parser peeks, reads exact sizes, discards)
		if i%4 == 0 {
			style := g.n(3)
			o2, e2 := c06PemDecodeWith(in, style, []int{1 + g.n(9), 1 + g.n(600), 4096 + g.n(3000)})
			if !bytes.Equal(o2, out) || e2 != end {
				r.Violate("C06 pem-read-pattern", fmt.Sprintf("style %d: %d bytes/%s instead of %d bytes/%s", style, len(o2), e2, len(out), end),
					map[string]interface{}{"input": hexs(in)})
			}
		}
		// valid files found among the generated ones: the oracle applies to them as well
		if class == "valid-lf" || class == "valid-crlf" {
			if blk, rest := pem.Decode(bytes.ReplaceAll(in, []byte("\r\n"), []byte("\n"))); blk != nil && len(rest) == 0 {
				if !bytes.Equal(out, blk.Bytes) || end != "eof" {
					r.Violate("C06 pem-round-trip", fmt.Sprintf("%s: decoded %d bytes, end %s, want %d bytes", class, len(out), end, len(blk.Bytes)),
						map[string]interface{}{"input": hexs(in)})
				}
			}
		}
	}

	// the encoder of the model against pem.EncodeToMemory
	for i := 0; i < nEncode; i++ {
		der, lab := g.der(), g.label()
		b := pem.EncodeToMemory(&pem.Block{Type: lab, Bytes: der})
		r.Op("pem encode lf "+hexs([]byte(lab))+" "+hexs(der), hexs(b))
		r.Op("pem encode crlf "+hexs([]byte(lab))+" "+hexs(der), hexs(bytes.ReplaceAll(b, []byte("\n"), []byte("\r\n"))))
		r.Eval(fmt.Sprintf("encode/%s/%x", lab, der), len(der) > 0)
	}

	// PEM detection at the limits of bufio's ReadLine
	for _, k := range []int{0, 1, 4000, 4084, 4085, 4086, 4087, 4088, 4095, 4096, 4097} {
		for _, e := range []string{"", "\n", "\r\n"} {
			for _, tail := range []string{"", "QUJD\n"} {
				lab := strings.Repeat("A", k)
				in := []byte("-----" + lab + "-----" + e + tail)
				r.Op("pem ispem "+hexs(in), fmt.Sprint(files.isPem(in)))
				in = []byte(strings.Repeat("A", k) + e + tail)
				r.Op("pem ispem "+hexs(in), fmt.Sprint(files.isPem(in)))
			}
		}
	}

	for i := 0; i < nArmour; i++ {
		line := g.singleLine()
		is := files.isPem(line)
		r.Op("pem armour "+hexs(line), fmt.Sprint(is))
		r.Count(fmt.Sprintf("armour/%v", is))
		r.Eval(fmt.Sprintf("armour/%x", line), len(line) > 0)
	}

	for i := 0; i < nB64; i++ {
		text, class := g.b64Text()
		out, end := c06B64Decode(text)
		r.Op("pem b64 "+hexs(text), hexs(out)+" "+end)
		r.Count("b64/" + class + "/" + end)
		r.Eval(fmt.Sprintf("b64/%x", text), len(text) > 0)
		if class == "valid" {
			want, _ := base64.StdEncoding.DecodeString(string(text))
			if !bytes.Equal(out, want) || end != "eof" {
				r.Violate("C06 b64-round-trip", fmt.Sprintf("decoded %d bytes, end %s, want %d bytes", len(out), end, len(want)),
					map[string]interface{}{"text": hexs(text)})
			}
		}
	}
}

func c06PemFirstN(b []byte, n int) []byte {
	if len(b) > n {
		return b[:n]
	}
	return b
}
