package main

import (
	"crypto/x509"
	"fmt"
	"math/big"
	"strings"
	"time"

	revocation "github.com/gr33nbl00d/caddy-revocation-validator"
	"github.com/gr33nbl00d/caddy-revocation-validator/config"
	"golang.org/x/crypto/ocsp"
)

func init() { register("C03", runC03) }

func modeName(m config.RevocationCheckMode) string {
	switch m {
	case config.RevocationCheckModePreferOCSP:
		return "prefer_ocsp"
	case config.RevocationCheckModePreferCRL:
		return "prefer_crl"
	case config.RevocationCheckModeCRLOnly:
		return "crl_only"
	case config.RevocationCheckModeOCSPOnly:
		return "ocsp_only"
	case config.RevocationCheckModeDisabled:
		return "disabled"
	}
	return fmt.Sprintf("mode#%d", int(m))
}

type c03Cell struct {
	Mode       string `json:"mode"`
	Ocsp       string `json:"ocsp"` // noaia good revoked unavailable
	AiaStrict  bool   `json:"aia_strict"`
	Crl        string `json:"crl"` // none listed notlisted unavailable
	CdpStrict  bool   `json:"cdp_strict"`
	Storage    string `json:"storage"`
	ChainShape int    `json:"chains"`         // 0,1,2
	NoOCSPSect bool   `json:"no_ocsp_config"` // the configuration has no ocsp_config section at all (JSON form)
}

func (c c03Cell) key() string {
	return fmt.Sprintf("%s/%s/%v/%s/%v/%s/%d/noocspsect=%v", c.Mode, c.Ocsp, c.AiaStrict, c.Crl, c.CdpStrict, c.Storage, c.ChainShape, c.NoOCSPSect)
}

func runC03(r *Run) {
	r.rule = "exhaustive table mode x OCSP scenario x aia_strict x CRL scenario x cdp_strict x storage x chain shape on the real validator; " +
		"a cell is non-trivial when the mode enables at least one mechanism and the chain list is non-empty; plus parseMode strings"
	ca := NewCA(CAOpts{CN: "C03 CA", EC: true})
	origin := NewOrigin()
	defer origin.Close()

	modes := []string{"", "prefer_ocsp", "prefer_crl", "ocsp_only", "crl_only", "disabled"}
	ocsps := []string{"noaia", "good", "revoked", "unavailable"}
	crls := []string{"none", "listed", "notlisted", "unavailable"}
	var cells []c03Cell
	for _, m := range modes {
		for _, o := range ocsps {
			for _, as := range []bool{false, true} {
				for _, c := range crls {
					for _, cs := range []bool{false, true} {
						for _, st := range []string{"memory", "disk"} {
							for sh := 0; sh <= 2; sh++ {
								cells = append(cells, c03Cell{m, o, as, c, cs, st, sh, false})
							}
						}
					}
				}
			}
		}
	}
	if !r.Thorough() {
		// quick: every (mode, ocsp, strict, crl, strict) combination, storage and chain shape rotated
		var q []c03Cell
		for i, c := range cells {
			k := i / 6 // index of the (mode..cdpstrict) combination
			if (c.Storage == "disk") == (k%2 == 0) && (c.ChainShape == 1+k%2 || (c.ChainShape == 0 && k%5 == 0)) {
				q = append(q, c)
			}
		}
		cells = q
	}
	// the sections present in the configuration must not change what the mode means: unset and prefer_* modes with a
	// crl_config only (OCSP needs no configuration: the responders are named by the certificate)
	for _, m := range []string{"", "prefer_ocsp", "prefer_crl", "ocsp_only"} {
		for _, o := range ocsps {
			for _, c := range crls {
				cells = append(cells, c03Cell{Mode: m, Ocsp: o, Crl: c, Storage: "memory", ChainShape: 1, NoOCSPSect: true})
			}
		}
	}
	parallel(len(cells), 16, func(i int) { c03RunCell(r, ca, origin, i, cells[i]) })
	c03ConfiguredCRLs(r, ca, origin)

	// parseMode strings
	strs := []string{"", "prefer_ocsp", "prefer_crl", "ocsp_only", "crl_only", "disabled", "Disabled", "DISABLED", " disabled",
		"disabled ", "prefer-ocsp", "preferocsp", "ocsp", "crl", "none", "off", "prefer_ocsp\n", "\x00", "crl_only\x00", "ocsp_only,crl_only", "true", "0"}
	n := 200
	if r.Thorough() {
		n = 5000
	}
	alphabet := "abcdefgilnoprsy_ODPCRL -"
	for i := 0; i < n; i++ {
		base := strs[r.Rng.Intn(6)]
		b := []byte(base)
		switch r.Rng.Intn(4) {
		case 0:
			if len(b) > 0 {
				b[r.Rng.Intn(len(b))] = alphabet[r.Rng.Intn(len(alphabet))]
			}
		case 1:
			b = append(b, alphabet[r.Rng.Intn(len(alphabet))])
		case 2:
			if len(b) > 0 {
				b = b[:r.Rng.Intn(len(b))]
			}
		case 3:
			l := r.Rng.Intn(12)
			b = b[:0]
			for j := 0; j < l; j++ {
				b = append(b, alphabet[r.Rng.Intn(len(alphabet))])
			}
		}
		strs = append(strs, string(b))
	}
	// a validator object that is configured a second time (Cleanup + Provision of the same value, a struct with a pre-set
	// ModeParsed): what the mode string means must not depend on what the object meant before
	docd := []string{"", "prefer_ocsp", "prefer_crl", "ocsp_only", "crl_only", "disabled"}
	for _, a := range docd {
		for _, b := range docd {
			v := &revocation.CertRevocationValidator{Mode: a}
			if err := revocation.VerifParseMode(v); err != nil {
				continue
			}
			v.Mode = b
			obs := "none"
			if err := revocation.VerifParseMode(v); err == nil {
				obs = modeName(v.ModeParsed)
			}
			r.Op("mode parse "+hexs([]byte(b)), obs)
			r.Eval("reparse/"+a+"/"+b, true)
			r.Count("reparse:" + obs)
			want := b
			if b == "" {
				want = "prefer_ocsp"
			}
			if obs != want {
				r.Violate("C03 parse-mode", fmt.Sprintf("mode string %q parsed to %s on an object that was %q before, documented %s", b, obs, a, want), map[string]string{"mode": b, "before": a})
			}
		}
	}
	for _, s := range strs {
		v := &revocation.CertRevocationValidator{Mode: s}
		obs := "none"
		if err := revocation.VerifParseMode(v); err == nil {
			obs = modeName(v.ModeParsed)
		}
		r.Op("mode parse "+hexs([]byte(s)), obs)
		r.Eval("parse/"+s, obs != "none")
		r.Count("parse:" + obs)
		// oracle: documented strings map to themselves, "" to prefer_ocsp, everything else rejected
		want := "none"
		switch s {
		case "":
			want = "prefer_ocsp"
		case "prefer_ocsp", "prefer_crl", "ocsp_only", "crl_only", "disabled":
			want = s
		}
		if obs != want {
			r.Violate("C03 parse-mode", fmt.Sprintf("mode string %q parsed to %s, documented %s", s, obs, want), map[string]string{"mode": s})
		}
	}
}

// c03ConfiguredCRLs: "disabled accepts every verified chain without touching network or storage", "ocsp_only never consults
// CRLs" also hold for a configuration that still carries crl_urls / crl_files (loaded from JSON, as Caddy loads it): nothing
// of the CRL subsystem may start at Provision, at a handshake or on the ticker. The modes that enable CRLs are the control:
// there the configured list is fetched at Provision and enforced.
func c03ConfiguredCRLs(r *Run, ca *CA, origin *Origin) {
	type cc struct {
		mode, storage, src string
	}
	var cases []cc
	for _, m := range []string{"", "prefer_ocsp", "prefer_crl", "ocsp_only", "crl_only", "disabled"} {
		for _, st := range []string{"memory", "disk"} {
			for _, src := range []string{"url", "file"} {
				cases = append(cases, cc{m, st, src})
			}
		}
	}
	parallel(len(cases), 8, func(i int) {
		c := cases[i]
		listed := ca.IssueLeaf(LeafOpts{CN: fmt.Sprintf("c03 configured %d", i)})
		crlBytes := ca.MakeCRL(CRLOpts{Serials: []*big.Int{listed.Cert.SerialNumber}, Number: 3})
		path := fmt.Sprintf("/c03/configured/%d.crl", i)
		origin.SetBytes(path, crlBytes)
		wd := scratchDir("c03cfg")
		cfg := VCfg{Mode: c.mode, WorkDir: wd, Storage: c.storage, UpdateInterval: "150ms", TrustedSigners: []string{writeFile(scratchDir("c03sig"), "ca.pem", certPEM(ca.Cert))}}
		if c.src == "url" {
			cfg.CRLUrls = []string{origin.URL(path)}
		} else {
			cfg.CRLFiles = []string{writeFile(scratchDir("c03file"), "list.crl", crlBytes)}
		}
		v, err := Provision(cfg)
		if err != nil {
			r.Violate("C03 provision-failed", fmt.Sprintf("configured CRL, mode %q %s %s: %v", c.mode, c.storage, c.src, err), nil)
			return
		}
		verdict, _ := v.Verify([][]*x509.Certificate{{listed.Cert, ca.Cert}})
		time.Sleep(400 * time.Millisecond) // two ticker periods
		hits := origin.Hits(path)
		residue := listDir(wd)
		v.Close()
		crlOn := c.mode == "" || c.mode == "prefer_ocsp" || c.mode == "prefer_crl" || c.mode == "crl_only"
		key := fmt.Sprintf("configured-crl mode=%q storage=%s source=%s", c.mode, c.storage, c.src)
		if crlOn {
			if verdict != "reject" {
				r.Violate("C03 verdict", key+": the certificate listed in the configured CRL was "+verdict, nil)
			}
		} else {
			if verdict != "accept" {
				r.Violate("C03 verdict", key+": verdict "+verdict+" although the mode disables CRLs (no OCSP responder named)", nil)
			}
			if hits > 0 {
				r.Violate("C03 consulted-disabled-mechanism", fmt.Sprintf("%s: the configured CRL location was requested %d time(s)", key, hits), nil)
			}
			if len(residue) > 0 {
				r.Violate("C03 consulted-disabled-mechanism", fmt.Sprintf("%s: the work directory was used: %v", key, residue), nil)
			}
		}
		r.Eval(key, true)
		r.Count("configured-crl:" + c.mode)
	})
}

type c03Subject struct {
	leaf              *Leaf
	ocspPath, crlPath string
	chains            [][]*x509.Certificate
}

// c03Subject builds one client certificate with its own responder / distribution point paths for the cell.
func c03MakeSubject(ca *CA, origin *Origin, id string, c c03Cell) c03Subject {
	s := c03Subject{ocspPath: "/ocsp/" + id, crlPath: "/crl/" + id}
	lo := LeafOpts{}
	if c.Ocsp != "noaia" {
		lo.OCSP = []string{origin.URL(s.ocspPath)}
	}
	if c.Crl != "none" {
		lo.CDP = []string{origin.URL(s.crlPath)}
	}
	s.leaf = ca.IssueLeaf(lo)
	switch c.Ocsp {
	case "good":
		origin.SetBytes(s.ocspPath, ca.OCSPResponse(OCSPOpts{Status: ocsp.Good, Serial: s.leaf.Cert.SerialNumber}))
	case "revoked":
		origin.SetBytes(s.ocspPath, ca.OCSPResponse(OCSPOpts{Status: ocsp.Revoked, Serial: s.leaf.Cert.SerialNumber}))
	case "unavailable":
		origin.Set(s.ocspPath, Behaviour{Kind: "status", Status: 500, Body: []byte("<html>internal error</html>")})
	}
	switch c.Crl {
	case "listed":
		origin.SetBytes(s.crlPath, ca.MakeCRL(CRLOpts{Serials: []*big.Int{big.NewInt(5), s.leaf.Cert.SerialNumber, big.NewInt(7)}}))
	case "notlisted":
		origin.SetBytes(s.crlPath, ca.MakeCRL(CRLOpts{Serials: []*big.Int{big.NewInt(5), big.NewInt(7)}}))
	case "unavailable":
		origin.Set(s.crlPath, Behaviour{Kind: "status", Status: 404, Body: []byte("not found")})
	}
	for k := 0; k < c.ChainShape; k++ {
		s.chains = append(s.chains, []*x509.Certificate{s.leaf.Cert, ca.Cert})
	}
	return s
}

func c03RunCell(r *Run, ca *CA, origin *Origin, idx int, c c03Cell) {
	// two identically constructed subjects: B is used to classify what each mechanism returns (direct calls on the
	// real checkers), A for the handshake whose verdict and consulted mechanisms are observed. Separate paths keep
	// B's background refresh goroutine out of A's hit counters.
	sa := c03MakeSubject(ca, origin, fmt.Sprintf("%da", idx), c)
	sb := c03MakeSubject(ca, origin, fmt.Sprintf("%db", idx), c)
	mk := func() (*Validator, error) {
		return Provision(VCfg{Mode: c.Mode, WorkDir: scratchDir("c03"), Storage: c.Storage, CDPStrict: c.CdpStrict, OCSPStrict: c.AiaStrict, NoOCSPConfig: c.NoOCSPSect})
	}
	// expected mechanism outcomes by construction
	oExp := map[string]string{"noaia": "good", "good": "good", "revoked": "revoked", "unavailable": "good"}[c.Ocsp]
	if c.Ocsp == "unavailable" && c.AiaStrict {
		oExp = "error"
	}
	cExp := map[string]string{"none": "good", "listed": "revoked", "notlisted": "good", "unavailable": "good"}[c.Crl]
	if c.Crl == "unavailable" && c.CdpStrict {
		cExp = "error"
	}
	vb, err := mk()
	if err != nil {
		r.Violate("C03 provision-failed", fmt.Sprintf("cell %s: %v", c.key(), err), c)
		return
	}
	oObs, cObs := oExp, cExp
	// (the checkers are only provisioned when the parsed mode enables them)
	if ch := vb.V.VerifOCSPChecker(); ch != nil && len(sb.chains) > 0 && revocation.VerifIsOCSPCheckingEnabled(vb.V) {
		st, e := ch.IsRevoked(sb.leaf.Cert, sb.chains)
		oObs = classify(st != nil && st.Revoked, e)
	}
	if ch := vb.V.VerifCRLChecker(); ch != nil && len(sb.chains) > 0 && revocation.VerifIsCRLCheckingEnabled(vb.V) {
		st, e := ch.IsRevoked(sb.leaf.Cert, sb.chains)
		cObs = classify(st != nil && st.Revoked, e)
	}
	vb.Close()
	if oObs != oExp || cObs != cExp {
		r.Violate("C03 mechanism-outcome-unexpected", fmt.Sprintf("cell %s: ocsp %s (constructed %s) crl %s (constructed %s)", c.key(), oObs, oExp, cObs, cExp), c)
	}
	va, err := mk()
	if err != nil {
		r.Violate("C03 provision-failed", fmt.Sprintf("cell %s: %v", c.key(), err), c)
		return
	}
	verdict, _ := va.Verify(sa.chains)
	var consulted []string
	if origin.Hits(sa.ocspPath) > 0 {
		consulted = append(consulted, "ocsp")
	}
	if origin.Hits(sa.crlPath) > 0 {
		consulted = append(consulted, "crl")
	}
	va.Close()
	chains := sa.chains
	obsO, obsC := c.Ocsp != "noaia", c.Crl != "none"
	mode := c.Mode
	if mode == "" {
		mode = "unset"
	}
	r.Op(fmt.Sprintf("mode v %s %s %s %v %v %v", mode, oObs, cObs, len(chains) > 0, obsO, obsC),
		verdict+" consulted="+strings.Join(consulted, ","))
	nontrivial := c.Mode != "disabled" && c.ChainShape > 0
	r.Eval(c.key(), nontrivial)
	r.Count("verdict:" + verdict)
	r.Count("mode:" + mode)
	r.Sample(map[string]interface{}{"cell": c, "ocsp_outcome": oObs, "crl_outcome": cObs, "verdict": verdict, "consulted": consulted})
	// implementation-side oracle: the property statement itself
	ocspOn := c.Mode == "" || c.Mode == "prefer_ocsp" || c.Mode == "prefer_crl" || c.Mode == "ocsp_only"
	crlOn := c.Mode == "" || c.Mode == "prefer_ocsp" || c.Mode == "prefer_crl" || c.Mode == "crl_only"
	wantReject := len(chains) > 0 && ((ocspOn && oObs != "good") || (crlOn && cObs != "good"))
	if (verdict == "reject") != wantReject || verdict == "panic" {
		r.Violate("C03 verdict", fmt.Sprintf("cell %s: verdict %s, mode promises reject=%v (ocsp=%s crl=%s)", c.key(), verdict, wantReject, oObs, cObs), c)
	}
	for _, m := range consulted {
		if (m == "ocsp" && !ocspOn) || (m == "crl" && !crlOn) {
			r.Violate("C03 consulted-disabled-mechanism", fmt.Sprintf("cell %s: %s consulted although the mode disables it", c.key(), m), c)
		}
	}
}

func classify(revoked bool, err error) string {
	if err != nil {
		return "error"
	}
	if revoked {
		return "revoked"
	}
	return "good"
}
