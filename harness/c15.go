package main

// C15 — refresh liveness on the REAL code with real tickers (update_interval of a few hundred ms).
//  (1) decision probes: one call of updateCRLs at a controlled distance from the last finish -> run | skip,
//      compared with the model's `sched decide`; two instances -> the stamp is per instance (`sched pair`, `sched scope`);
//  (2) n in {1,2,3} instances with different intervals, phases and work_dirs: per-instance fetch counts over a
//      window (`sched admits count`), time from publishing a CRL that revokes a certificate to the first rejected
//      handshake (`sched admits delay`, oracle: <= the bound of bounded_refresh), for signature modes x fetch modes x
//      sources {crl_urls, crl_files, CDP};
//  (3) fail^k-then-succeed histories (garbage / 500 / bad signature), all locations attempted although one fails;
//      the same for the FIRST load of a CDP location (both fetch modes); a stream of first-seen distribution points
//      (forced runs that stamp the finish time) must not keep the lists in force from being refreshed;
//  (4) Provision: configured CRLs are in force the moment Provision returns; an unloadable one makes it fail.

import (
	"crypto/x509"
	"fmt"
	"math/big"
	"os"
	"path/filepath"
	"sort"
	"strings"
	"sync"
	"time"

	"github.com/gr33nbl00d/caddy-revocation-validator/crl"
)

func init() { register("C15", runC15) }

const (
	c15D = 150 // ms granted to one refresh run
	c15W = 150 // ms granted to mutex waits / timer and scheduler latency
)

func c15Bound(intervalMs int) int { return intervalMs + intervalMs/2 + 2*c15D + c15W }

type c15Inst struct {
	name      string
	interval  int // ms
	v         *Validator
	chk       *crl.CRLRevocationChecker
	workDir   string
	origin    *ConcOrigin
	ca        *CA
	provision time.Time
}

type c15Source struct {
	kind   string // crl_urls | crl_files | cdp
	path   string // origin path or file path
	listed *Leaf  // revoked from the start
	victim *Leaf  // revoked by the next published version
	other  *Leaf  // never revoked
}

// c15Close cleans a validator up so that no refresh of it runs afterwards: a forced refresh stamps the finish time,
// so the tick calls still queued behind the refresh mutex skip ("recently finished") instead of running on the
// closed repository. Without this a queued refresh of a closed disk instance retries every LevelDB step 5 x 1 s
// *while holding the process-wide refresh mutex*, which stalls the refreshes of every other validator for seconds
// (that effect is measured on purpose by c15CleanupInterference, not by accident everywhere else).
func c15Close(v *Validator) {
	if chk := v.V.VerifCRLChecker(); chk != nil {
		// bounded: a code change that makes every refresh fail slowly lets thousands of tick goroutines queue up behind
		// the (unfair) refresh mutex, and this call would wait behind them for hours
		done := make(chan struct{})
		go func() { defer close(done); defer func() { recover() }(); chk.VerifUpdateCRLs(true) }()
		select {
		case <-done:
		case <-time.After(20 * time.Second):
		}
	}
	v.Close()
}

// c15Quiesce waits until the refresh mutex is free twice in a row (no queue of refresh calls behind it).
func c15Quiesce() {
	quiet := 0
	for t0 := time.Now(); quiet < 2 && time.Since(t0) < 90*time.Second; {
		s := time.Now()
		crl.VerifHoldUpdateMutex()()
		if time.Since(s) < 30*time.Millisecond {
			quiet++
		} else {
			quiet = 0
		}
		time.Sleep(20 * time.Millisecond)
	}
}

func c15WriteFileAtomic(path string, b []byte) {
	tmp := path + ".new"
	must(os.WriteFile(tmp, b, 0600))
	must(os.Rename(tmp, path))
}

func (s *c15Source) publish(o *ConcOrigin, ca *CA, withVictim bool, number int64) {
	serials := []*big.Int{s.listed.Cert.SerialNumber}
	if withVictim {
		serials = append(serials, s.victim.Cert.SerialNumber)
	}
	b := ca.MakeCRL(CRLOpts{Serials: serials, Number: number})
	if s.kind == "crl_files" {
		c15WriteFileAtomic(s.path, b)
	} else {
		o.SetBytes(s.path, b)
	}
}

func c15NewSource(kind, id string, o *ConcOrigin, ca *CA, dir string) *c15Source {
	s := &c15Source{kind: kind}
	lo := LeafOpts{}
	switch kind {
	case "crl_files":
		s.path = filepath.Join(dir, "crl-"+id+".der")
	default:
		s.path = "/c15/" + id
		if kind == "cdp" {
			lo.CDP = []string{o.URL(s.path)}
		}
	}
	s.listed, s.victim, s.other = ca.IssueLeaf(lo), ca.IssueLeaf(lo), ca.IssueLeaf(lo)
	s.publish(o, ca, false, 1)
	return s
}

func c15Chains(l *Leaf, ca *CA) [][]*x509.Certificate {
	return [][]*x509.Certificate{{l.Cert, ca.Cert}}
}

// waitVerdict polls until the verdict of leaf equals want; returns the elapsed time and whether it happened.
func c15WaitVerdict(v *Validator, l *Leaf, ca *CA, want string, timeout time.Duration) (time.Duration, bool) {
	t0 := time.Now()
	for time.Since(t0) < timeout {
		if vd, _ := v.Verify(c15Chains(l, ca)); vd == want {
			return time.Since(t0), true
		}
		time.Sleep(4 * time.Millisecond)
	}
	return time.Since(t0), false
}

func c15Provision(r *Run, name string, intervalMs int, storage, sig, fetch string, srcs []*c15Source, o *ConcOrigin, ca *CA, signers string) (*c15Inst, error) {
	in := &c15Inst{name: name, interval: intervalMs, origin: o, ca: ca, workDir: scratchDir("c15-" + name)}
	cfg := VCfg{Mode: "crl_only", WorkDir: in.workDir, Storage: storage, UpdateInterval: fmt.Sprintf("%dms", intervalMs), SigMode: sig, FetchMode: fetch}
	if signers != "" {
		cfg.TrustedSigners = []string{signers}
	}
	for _, s := range srcs {
		switch s.kind {
		case "crl_urls":
			cfg.CRLUrls = append(cfg.CRLUrls, o.URL(s.path))
		case "crl_files":
			cfg.CRLFiles = append(cfg.CRLFiles, s.path)
		}
	}
	v, err := Provision(cfg)
	in.provision = time.Now()
	if err != nil {
		return nil, err
	}
	in.v = v
	in.chk = v.V.VerifCRLChecker()
	return in, nil
}

func runC15(r *Run) {
	r.rule = "a case is non-trivial when a refresh of the real code decided or delivered something observable: a run/skip decision probe, " +
		"a publish-to-reject delay measured against a running ticker, a fail^k history with k >= 1, a window with >= 3 expected ticks, a Provision with configured CRLs"
	// All validators of a process share one refresh mutex and every ticker keeps queueing calls behind it: the
	// parts run one after the other and with bounded width, so that the waits granted to the measured instances
	// (c15W) are honest. (What a slow origin of one instance does to the others is measured separately, see
	// c15Failures kind=drop.)
	part := func(f func()) {
		defer func() {
			if p := recover(); p != nil {
				r.Violate("C15 harness-panic", fmt.Sprint(p), nil)
			}
		}()
		f()
	}
	only := os.Getenv("VERIF_C15_PARTS") // debugging aid: comma separated part indices
	for i, f := range []func(*Run){c15DecisionProbes, c15Instances, c15Matrix, c15Failures, c15FirstLoadFailures, c15ProvisionCases, c15CleanupInterference, c10LoaderStream, c15NewCdpTraffic} {
		if only != "" && !strings.Contains(","+only+",", fmt.Sprintf(",%d,", i)) {
			continue
		}
		f := f
		part(func() { f(r) })
		c15Quiesce()
	}
}

// c15CleanupInterference measures what the Cleanup of one (disk) instance whose refresh is in flight does to the
// refresh of another instance: the closing instance's refresh retries on closed stores while it holds the
// process-wide mutex. Reported as a sample and checked against a generous bound (W = 12 s per entry of the
// closing instance: two steps x 5 retries x 1 s, plus slack).
func c15CleanupInterference(r *Run) {
	o := NewConcOrigin()
	defer o.Close()
	ca := NewCA(CAOpts{CN: "C15 interference CA", EC: true})
	signers := writeFile(scratchDir("c15-signers"), "ca.pem", certPEM(ca.Cert))
	sb := c15NewSource("crl_urls", "int-b", o, ca, "")
	b, err := c15Provision(r, "int-b", 300, "memory", "", "", []*c15Source{sb}, o, ca, signers)
	if err != nil {
		r.Violate("C15 provision-failed", "interference: "+err.Error(), nil)
		return
	}
	defer c15Close(b.v)
	worst := 0
	rounds := 3
	if r.Thorough() {
		rounds = 10
	}
	for i := 0; i < rounds; i++ {
		sa := c15NewSource("crl_urls", fmt.Sprintf("int-a%d", i), o, ca, "")
		a, err := c15Provision(r, fmt.Sprintf("int-a%d", i), 300, "disk", "", "", []*c15Source{sa}, o, ca, signers)
		if err != nil {
			r.Violate("C15 provision-failed", "interference: "+err.Error(), nil)
			return
		}
		// A's refresh and A's Cleanup at the same moment
		var wg sync.WaitGroup
		wg.Add(2)
		go func() { defer wg.Done(); a.chk.VerifUpdateCRLsRecovering(true) }()
		go func() { defer wg.Done(); time.Sleep(time.Duration(r.Rng.Intn(3000)) * time.Microsecond); a.v.Close() }()
		// meanwhile B must pick up a new CRL
		sb.publish(o, ca, i%2 == 0, int64(10+i))
		want := map[bool]string{true: "reject", false: "accept"}[i%2 == 0]
		d, ok := c15WaitVerdict(b.v, sb.victim, ca, want, 40*time.Second)
		wg.Wait()
		ms := int(d / time.Millisecond)
		r.Note(fmt.Sprintf("cleanup-interference round %d: other instance's publish-to-verdict delay %d ms", i, ms))
		if ms > worst {
			worst = ms
		}
		if !ok {
			r.Violate("C15 refresh-blocked-by-cleaned-up-instance backend=disk", fmt.Sprintf("instance B (interval 300 ms) did not pick up a new CRL within 40 s while instance A (disk, 1 location) was cleaned up during its refresh"), nil)
		}
		r.Eval(fmt.Sprintf("cleanup-interference/%d", i), true)
	}
	bound := c15Bound(300) + 1000
	if worst <= bound {
		r.Op(fmt.Sprintf("sched admits delay 300 %d %d %d", c15D, c15W+1000, worst), "yes")
	}
	r.Sample(map[string]interface{}{"scenario": "cleanup of a disk instance during its refresh", "other_instance_interval_ms": 300, "worst_publish_to_reject_ms": worst, "rounds": rounds})
	r.Count(fmt.Sprintf("cleanup-interference-over-1s:%v", worst > 1000))
	if worst > bound {
		r.Violate("C15 refresh-blocked-by-cleaned-up-instance backend=disk", fmt.Sprintf("instance B (memory, interval 300 ms) saw a newly published CRL only after %d ms because instance A (disk, 1 location) was cleaned up while one of its refresh calls was in flight: that call retries on the closed stores (2 x 5 x 1 s per location) holding the process-wide refresh mutex (granted %d ms)", worst, bound),
			map[string]interface{}{"scenario": "A: disk, 1 crl_url, updateCRLsRecovering(true) || Cleanup(); B: memory, update_interval 300ms, publish new CRL, poll handshake", "worst_ms": worst})
	}
}

// ---- (1) decision probes ---------------------------------------------------------------------------

func c15DecisionProbes(r *Run) {
	const I = 1600 // ms; half = 800
	o := NewConcOrigin()
	defer o.Close()
	ca := NewCA(CAOpts{CN: "C15 probe CA", EC: true})
	signers := writeFile(scratchDir("c15-signers"), "ca.pem", certPEM(ca.Cert))
	mk := func(name string) (*c15Inst, *c15Source) {
		s := c15NewSource("crl_urls", "probe-"+name, o, ca, "")
		in, err := c15Provision(r, name, I, "memory", "", "", []*c15Source{s}, o, ca, signers)
		if err != nil {
			r.Violate("C15 provision-failed", "decision probe "+name+": "+err.Error(), nil)
			return nil, nil
		}
		return in, s
	}
	a, sa := mk("pa")
	if a == nil {
		return
	}
	defer c15Close(a.v)
	// the ticker goroutine's initial run: stamp is zero -> runs (Provision itself fetched twice: AddCRL + UpdateCRL)
	time.Sleep(250 * time.Millisecond)
	obs := "skip"
	if o.Hits(sa.path) >= 3 {
		obs = "run"
	}
	r.Op(fmt.Sprintf("sched decide %d 0 1 false", I), obs)
	r.Eval("decide/initial", true)
	rel := func(t time.Time) int { return int(t.Sub(a.provision)/time.Millisecond) + 1000 }
	lastFetch := func(in *c15Inst, s *c15Source) time.Time {
		ts := o.Log.times(s.path)
		return ts[len(ts)-1]
	}
	// one call at a chosen distance after a forced run; distances keep 200 ms clear of the I/2 boundary
	probeAt := func(label string, dist int, force bool) {
		// start from a known state: forced run now; then make sure no real tick falls into the probe
		for try := 0; try < 4; try++ {
			a.chk.VerifUpdateCRLs(true)
			last := lastFetch(a, sa)
			time.Sleep(time.Duration(dist)*time.Millisecond - time.Since(last))
			// a real tick may have refreshed in between: then the stamp moved, retry
			if !lastFetch(a, sa).Equal(last) {
				continue
			}
			before := o.Hits(sa.path)
			now := time.Now()
			a.chk.VerifUpdateCRLs(force)
			obs := "skip"
			if o.Hits(sa.path) > before {
				obs = "run"
			}
			r.Op(fmt.Sprintf("sched decide %d %d %d %v", I, rel(last), rel(now), force), obs)
			r.Eval("decide/"+label, true)
			r.Count("decide:" + obs)
			return
		}
		r.Note("decision probe " + label + " could not find a quiet window")
	}
	probeAt("soon", 100, false)
	probeAt("soon-forced", 100, true)
	probeAt("before-half", 550, false)
	probeAt("after-half", 1050, false)
	probeAt("after-half-forced", 1050, true)

	// two instances: B's tick right after A finished must not be suppressed by A's finish
	b, sb := mk("pb")
	if b == nil {
		return
	}
	defer c15Close(b.v)
	for try := 0; try < 4; try++ {
		lastB := lastFetch(b, sb)
		wait := time.Duration(I/2+250)*time.Millisecond - time.Since(lastB)
		if wait > 0 {
			time.Sleep(wait)
		}
		if !lastFetch(b, sb).Equal(lastB) {
			continue // B's own ticker ran meanwhile
		}
		a.chk.VerifUpdateCRLs(true)
		fo := lastFetch(a, sa)
		before := o.Hits(sb.path)
		now := time.Now()
		b.chk.VerifUpdateCRLs(false)
		obs, scope := "skip", "global"
		if o.Hits(sb.path) > before {
			obs, scope = "run", "instance"
		}
		r.Op(fmt.Sprintf("sched pair %d %d %d %d", I, rel(lastB), rel(fo), rel(now)), obs)
		r.Op("sched scope", scope)
		r.Eval("decide/pair", true)
		if obs != "run" {
			r.Violate("C15 tick-suppressed-by-other-instance", fmt.Sprintf("instance B (own last refresh %d ms ago, interval %d ms) skipped its tick because instance A finished %d ms ago",
				now.Sub(lastB).Milliseconds(), I, now.Sub(fo).Milliseconds()), nil)
		}
		return
	}
	r.Note("pair probe could not find a quiet window")
}

// ---- (2) n instances, counts and delays ----------------------------------------------------------------

func c15Instances(r *Run) {
	var wg sync.WaitGroup
	for n := 1; n <= 3; n++ {
		wg.Add(1)
		go func(n int) {
			defer wg.Done()
			defer func() {
				if p := recover(); p != nil {
					r.Violate("C15 harness-panic", fmt.Sprint(p), nil)
				}
			}()
			c15Group(r, n)
		}(n)
	}
	wg.Wait()
}

func c15Group(r *Run, n int) {
	o := NewConcOrigin()
	defer o.Close()
	ca := NewCA(CAOpts{CN: fmt.Sprintf("C15 group%d CA", n), EC: true})
	signers := writeFile(scratchDir("c15-signers"), "ca.pem", certPEM(ca.Cert))
	intervals := []int{300, 400, 520}
	var insts []*c15Inst
	var srcs [][]*c15Source
	for i := 0; i < n; i++ {
		name := fmt.Sprintf("g%d-i%d", n, i)
		dir := scratchDir("c15-files")
		ss := []*c15Source{c15NewSource("crl_urls", name+"-url", o, ca, dir), c15NewSource("crl_files", name+"-file", o, ca, dir), c15NewSource("cdp", name+"-cdp", o, ca, dir)}
		storage := []string{"memory", "disk"}[(i+n)%2]
		fetch := []string{"fetch_actively", "fetch_background"}[i%2]
		time.Sleep(time.Duration(r.Rng.Intn(120)) * time.Millisecond) // phase
		in, err := c15Provision(r, name, intervals[i], storage, "", fetch, ss, o, ca, signers)
		if err != nil {
			r.Violate("C15 provision-failed", name+": "+err.Error(), nil)
			return
		}
		defer c15Close(in.v)
		insts = append(insts, in)
		srcs = append(srcs, ss)
	}
	// bring the CDP locations into force (first use)
	for i, in := range insts {
		if _, ok := c15WaitVerdict(in.v, srcs[i][2].listed, ca, "reject", 5*time.Second); !ok {
			r.Violate("C15 cdp-never-in-force", fmt.Sprintf("%s (%d instances): the CDP CRL of a certificate never came into force after its first use", in.name, n), nil)
			return
		}
	}
	// window: fetch counts per instance and location
	T := 3000
	if r.Thorough() {
		T = 12000
	}
	a := time.Now()
	time.Sleep(time.Duration(T) * time.Millisecond)
	b := time.Now()
	for i, in := range insts {
		for _, s := range []*c15Source{srcs[i][0], srcs[i][2]} {
			cnt := o.Log.countBetween(s.path, a, b)
			r.Op(fmt.Sprintf("sched admits count %d %d %d", in.interval, T, cnt), "yes")
			r.Eval(fmt.Sprintf("count/n=%d/%s/%s", n, in.name, s.kind), T/in.interval >= 3)
			r.Count(fmt.Sprintf("window-count:n=%d", n))
			r.Sample(map[string]interface{}{"instances": n, "instance": in.name, "interval_ms": in.interval, "source": s.kind, "window_ms": T, "fetches": cnt})
			pred := T / in.interval
			if cnt+1 < pred || cnt > pred+2 {
				r.Violate(fmt.Sprintf("C15 fetch-count-off source=%s", s.kind), fmt.Sprintf("%s (%d instances, interval %d ms): %d fetches of %s in %d ms, expected about %d", in.name, n, in.interval, cnt, s.path, T, pred), nil)
			}
		}
	}
	// publish at a random instant, measure the delay until the first rejected handshake, per instance and source
	var wg sync.WaitGroup
	for i, in := range insts {
		for _, s := range srcs[i] {
			wg.Add(1)
			go func(in *c15Inst, s *c15Source) {
				defer wg.Done()
				c15MeasureDelay(r, in, s, fmt.Sprintf("n=%d", n), 0)
			}(in, s)
		}
	}
	wg.Wait()
}

// c15MeasureDelay publishes a version revoking s.victim and measures how long the real validator keeps accepting it.
func c15MeasureDelay(r *Run, in *c15Inst, s *c15Source, label string, extraMs int) {
	bound := c15Bound(in.interval) + extraMs
	measure := func(withVictim bool, leaf *Leaf, want string, num int64) (int, bool) {
		time.Sleep(time.Duration(r.Rng.Intn(in.interval)) * time.Millisecond)
		s.publish(in.origin, in.ca, withVictim, num)
		d, ok := c15WaitVerdict(in.v, leaf, in.ca, want, time.Duration(2*bound+3000)*time.Millisecond)
		return int(d / time.Millisecond), ok
	}
	if vd, _ := in.v.Verify(c15Chains(s.victim, in.ca)); vd != "accept" {
		r.Violate("C15 unlisted-rejected", fmt.Sprintf("%s %s: a certificate not yet revoked is rejected", in.name, s.kind), nil)
		return
	}
	d, ok := measure(true, s.victim, "reject", 2)
	if !ok || d > bound {
		// re-measure once (un-revoke, then revoke again) before reporting
		measure(false, s.victim, "accept", 3)
		d2, ok2 := measure(true, s.victim, "reject", 4)
		if !ok2 || d2 > bound {
			r.Violate(fmt.Sprintf("C15 refresh-delay-exceeded source=%s", s.kind),
				fmt.Sprintf("%s (%s, interval %d ms): revoked certificate still accepted %d ms and %d ms after the new CRL was published (bound %d ms, reached: %v/%v)", in.name, label, in.interval, d, d2, bound, ok, ok2),
				map[string]interface{}{"instance": in.name, "source": s.kind, "interval_ms": in.interval})
		}
		if ok2 {
			d = d2
		}
	}
	r.Op(fmt.Sprintf("sched admits delay %d %d %d %d", in.interval, c15D, c15W+extraMs, d), "yes")
	r.Eval(fmt.Sprintf("delay/%s/%s/%s", label, in.name, s.kind), true)
	r.Count("delay-measured:" + s.kind)
	if vd, _ := in.v.Verify(c15Chains(s.other, in.ca)); vd != "accept" {
		r.Violate("C15 unlisted-rejected", fmt.Sprintf("%s %s: a certificate never revoked is rejected after the refresh", in.name, s.kind), nil)
	}
}

// ---- signature modes x fetch modes x sources ---------------------------------------------------------

func c15Matrix(r *Run) {
	type cell struct{ sig, fetch, kind, signer string }
	var cells []cell
	for _, sig := range []string{"", "verify", "verify_log", "none"} {
		for _, fetch := range []string{"fetch_actively", "fetch_background"} {
			for _, kind := range []string{"crl_urls", "crl_files", "cdp"} {
				cells = append(cells, cell{sig, fetch, kind, "ca"})
				if sig == "verify_log" || sig == "none" {
					cells = append(cells, cell{sig, fetch, kind, "unknown"})
				}
			}
		}
	}
	if !r.Thorough() {
		// quick: every (sig, source) and every (fetch, source) pair, signer variants rotated
		var q []cell
		for i, c := range cells {
			if c.sig == "" && c.fetch == "fetch_background" {
				continue
			}
			if c.signer == "unknown" && i%2 == 0 {
				continue
			}
			q = append(q, c)
		}
		cells = q
	}
	parallel(len(cells), 6, func(i int) {
		c := cells[i]
		o := NewConcOrigin()
		defer o.Close()
		ca := NewCA(CAOpts{CN: fmt.Sprintf("C15 matrix CA %d", i), EC: true})
		signerCA := ca
		signers := writeFile(scratchDir("c15-signers"), "ca.pem", certPEM(ca.Cert))
		if c.signer == "unknown" {
			// CRLs signed by a key nobody vouches for: acceptable under verify_log / none
			signerCA = &CA{Cert: ca.Cert, Key: newECKey(), Name: ca.Name}
			signers = ""
		}
		name := fmt.Sprintf("m%d", i)
		s := c15NewSource(c.kind, name, o, ca, scratchDir("c15-files"))
		s.publish(o, signerCA, false, 1)
		in, err := c15Provision(r, name, 300, []string{"memory", "disk"}[i%2], c.sig, c.fetch, []*c15Source{s}, o, ca, signers)
		key := fmt.Sprintf("sig=%s fetch=%s source=%s signer=%s", c.sig, c.fetch, c.kind, c.signer)
		if err != nil {
			r.Violate("C15 provision-failed "+key, err.Error(), c)
			return
		}
		defer c15Close(in.v)
		in.ca = signerCA
		// issuer certificate for the chains is the real CA in every case
		if c.kind == "cdp" {
			if _, ok := c15WaitVerdictCA(in.v, s.listed, ca, "reject", 5*time.Second); !ok {
				r.Violate("C15 cdp-never-in-force "+key, "the CDP CRL never came into force after its first use", c)
				return
			}
		} else if vd, _ := in.v.Verify(c15Chains(s.listed, ca)); vd != "reject" {
			r.Violate("C15 configured-crl-not-in-force-after-provision "+key, "listed certificate accepted right after Provision returned", c)
			return
		}
		c15MeasureDelayCA(r, in, s, ca, key)
	})
}

func c15WaitVerdictCA(v *Validator, l *Leaf, ca *CA, want string, timeout time.Duration) (time.Duration, bool) {
	return c15WaitVerdict(v, l, ca, want, timeout)
}

// c15MeasureDelayCA: like c15MeasureDelay, with the chain's issuer given separately from the CRL signer (in.ca).
func c15MeasureDelayCA(r *Run, in *c15Inst, s *c15Source, issuer *CA, key string) {
	bound := c15Bound(in.interval)
	try := func(num int64) (int, bool) {
		time.Sleep(time.Duration(r.Rng.Intn(in.interval)) * time.Millisecond)
		s.publish(in.origin, in.ca, true, num)
		d, ok := c15WaitVerdict(in.v, s.victim, issuer, "reject", time.Duration(2*bound+3000)*time.Millisecond)
		return int(d / time.Millisecond), ok
	}
	d, ok := try(2)
	if !ok || d > bound {
		s.publish(in.origin, in.ca, false, 3)
		c15WaitVerdict(in.v, s.victim, issuer, "accept", time.Duration(2*bound+3000)*time.Millisecond)
		d2, ok2 := try(4)
		if !ok2 || d2 > bound {
			r.Violate("C15 refresh-delay-exceeded "+key, fmt.Sprintf("revoked certificate still accepted %d ms and %d ms after the new CRL was published (interval %d ms, bound %d ms, reached: %v/%v)", d, d2, in.interval, bound, ok, ok2), nil)
		}
		if ok2 {
			d = d2
		}
	}
	r.Op(fmt.Sprintf("sched admits delay %d %d %d %d", in.interval, c15D, c15W, d), "yes")
	r.Eval("matrix/"+key, true)
	r.Count("matrix-cell")
}

// ---- (3) fail^k then succeed ----------------------------------------------------------------------

func c15Failures(r *Run) {
	kinds := []string{"garbage", "http500", "badsig", "truncated", "drop"}
	type fc struct {
		kind string
		k    int
	}
	var cases []fc
	maxK := 3
	if r.Thorough() {
		maxK = 6
	}
	for _, kind := range kinds {
		for k := 1; k <= maxK; k++ {
			cases = append(cases, fc{kind, k})
		}
	}
	// dropped connections make a run last k x 500 ms while it holds the process-wide mutex: one at a time, last
	sort.SliceStable(cases, func(a, b int) bool { return cases[a].kind != "drop" && cases[b].kind == "drop" })
	nd := 0
	for _, c := range cases {
		if c.kind != "drop" {
			nd++
		}
	}
	runCase := func(i int) {
		c := cases[i]
		const I = 300
		o := NewConcOrigin()
		defer o.Close()
		ca := NewCA(CAOpts{CN: fmt.Sprintf("C15 fail CA %d", i), EC: true})
		evil := &CA{Cert: ca.Cert, Key: newECKey(), Name: ca.Name}
		signers := writeFile(scratchDir("c15-signers"), "ca.pem", certPEM(ca.Cert))
		name := fmt.Sprintf("f%d", i)
		// three locations; the first one is the failing one, the others must be attempted all the same
		s := c15NewSource("crl_urls", name+"-a", o, ca, "")
		s2 := c15NewSource("crl_urls", name+"-b", o, ca, "")
		s3 := c15NewSource("crl_urls", name+"-c", o, ca, "")
		in, err := c15Provision(r, name, I, []string{"memory", "disk"}[i%2], "verify", "", []*c15Source{s, s2, s3}, o, ca, signers)
		if err != nil {
			r.Violate("C15 provision-failed", "failure history: "+err.Error(), nil)
			return
		}
		defer c15Close(in.v)
		good := ca.MakeCRL(CRLOpts{Serials: []*big.Int{s.listed.Cert.SerialNumber, s.victim.Cert.SerialNumber}, Number: 2})
		var bad Behaviour
		switch c.kind {
		case "garbage":
			bad = Behaviour{Kind: "bytes", Body: []byte("<html>maintenance</html>")}
		case "http500":
			bad = Behaviour{Kind: "status", Status: 500, Body: []byte("oops")}
		case "badsig":
			bad = Behaviour{Kind: "bytes", Body: evil.MakeCRL(CRLOpts{Serials: []*big.Int{s.victim.Cert.SerialNumber}, Number: 2})}
		case "truncated":
			bad = Behaviour{Kind: "bytes", Body: good[:len(good)/2]}
		case "drop":
			bad = Behaviour{Kind: "drop"}
		}
		script := []Behaviour{}
		for j := 0; j < c.k; j++ {
			script = append(script, bad)
		}
		script = append(script, Behaviour{Kind: "bytes", Body: good})
		time.Sleep(time.Duration(r.Rng.Intn(I)) * time.Millisecond)
		t0 := time.Now()
		o.SetScript(s.path, script)
		// every bad answer costs at most one run (the loader does not look at the http status; a 500 page is
		// just an unparsable CRL); a dropped connection is retried by the loader (5 x 500 ms) inside the run
		extra := c.k * I
		if c.kind == "drop" {
			extra = c.k*500 + 2*I
		}
		bound := c15Bound(I) + extra
		key := fmt.Sprintf("kind=%s k=%d", c.kind, c.k)
		sawOld, ok := false, false
		var d time.Duration
		for time.Since(t0) < time.Duration(bound+4000)*time.Millisecond {
			vd, _ := in.v.Verify(c15Chains(s.victim, ca))
			// how many scripted answers had been handed out when the verdict was given: read after the verdict from the
			// origin's own time-stamped record (a counter read before the handshake can be stale by one refresh run)
			served := len(o.ScriptServed(s.path))
			if vd == "reject" {
				ok, d = true, time.Since(t0)
				if served <= c.k {
					r.Violate("C15 failing-answer-came-into-force kind="+c.kind, fmt.Sprintf("%s: the certificate is rejected although only %d answers (all bad) had been served", key, served), nil)
				}
				break
			}
			if served >= 1 {
				sawOld = true // at least one bad answer was consumed and the previous list is still what decides
			}
			time.Sleep(4 * time.Millisecond)
		}
		if !ok || int(d/time.Millisecond) > bound {
			r.Violate("C15 not-refreshed-after-failures kind="+c.kind, fmt.Sprintf("%s: after %d failing answers the good CRL came into force after %d ms (reached %v; bound %d ms)", key, c.k, d.Milliseconds(), ok, bound), nil)
		}
		// while failing, the previous list stayed in force
		if vd, _ := in.v.Verify(c15Chains(s.listed, ca)); vd != "reject" {
			r.Violate("C15 previous-list-lost kind="+c.kind, key+": the certificate listed before the failures is accepted", nil)
		}
		// model: old while failing, new after the first success
		if sawOld || c.kind != "drop" {
			// (a dropped connection is first retried by net/http itself, within milliseconds: no old phase to see)
			obsF := map[bool]string{true: "old", false: "unseen"}[sawOld] + "," + map[bool]string{true: "new", false: "old"}[ok]
			r.Op(fmt.Sprintf("sched inforce %d", c.k), obsF)
		}
		// every run attempts all three locations although the first one fails: each of the k+1 runs that fetched
		// location a also fetched b and c (identifier order is map order, so a run that stopped at the failing
		// location would skip each of them half of the time)
		if c.kind != "drop" && ok {
			time.Sleep(150 * time.Millisecond) // let the run that delivered the good list finish its other locations
			var as []time.Time
			for _, t := range o.Log.times(s.path) {
				if !t.Before(t0) {
					as = append(as, t)
				}
			}
			if len(as) > c.k {
				lo, hi := as[0].Add(-I/2*time.Millisecond), as[c.k].Add(I/2*time.Millisecond)
				nb, nc := o.Log.countBetween(s2.path, lo, hi), o.Log.countBetween(s3.path, lo, hi)
				attempted := 1
				if nb >= c.k {
					attempted++
				}
				if nc >= c.k {
					attempted++
				}
				r.Op("sched attempts 3 1", fmt.Sprint(attempted))
				if attempted != 3 {
					r.Violate("C15 failing-location-stops-refresh", fmt.Sprintf("%s: during the %d runs that fetched the failing location the other two were fetched %d / %d times", key, c.k+1, nb, nc), nil)
				}
			}
		}
		r.Eval("failures/"+key, true)
		r.Count("failure-history:" + c.kind)
	}
	parallel(nd, 6, runCase)
	for i := nd; i < len(cases); i++ {
		runCase(i)
	}
}

// c15FirstLoadFailures: a CRL learned from a certificate's distribution point whose FIRST load fails k times (bad
// answers) before the location delivers an acceptable list: the list must come into force within the bound after
// the first good answer is available, in both fetch modes, with the issuer known only from the presented chain.
func c15FirstLoadFailures(r *Run) {
	type fc struct {
		fetch, kind string
		k           int
		storage     string
	}
	var cases []fc
	maxK := 2
	if r.Thorough() {
		maxK = 4
	}
	i := 0
	for _, fetch := range []string{"fetch_background", "fetch_actively"} {
		for _, kind := range []string{"garbage", "http500", "badsig", "truncated"} {
			for k := 1; k <= maxK; k++ {
				cases = append(cases, fc{fetch, kind, k, []string{"memory", "disk"}[i%2]})
				i++
			}
		}
	}
	parallel(len(cases), 6, func(i int) {
		c := cases[i]
		const I = 300
		o := NewConcOrigin()
		defer o.Close()
		ca := NewCA(CAOpts{CN: fmt.Sprintf("C15 first-load CA %d", i), EC: true})
		evil := &CA{Cert: ca.Cert, Key: newECKey(), Name: ca.Name}
		name := fmt.Sprintf("fl%d", i)
		s := c15NewSource("cdp", name, o, ca, "")
		good := ca.MakeCRL(CRLOpts{Serials: []*big.Int{s.listed.Cert.SerialNumber}, Number: 2})
		var bad Behaviour
		switch c.kind {
		case "garbage":
			bad = Behaviour{Kind: "bytes", Body: []byte("<html>maintenance</html>")}
		case "http500":
			bad = Behaviour{Kind: "status", Status: 500, Body: []byte("oops")}
		case "badsig":
			bad = Behaviour{Kind: "bytes", Body: evil.MakeCRL(CRLOpts{Serials: []*big.Int{s.listed.Cert.SerialNumber}, Number: 2})}
		case "truncated":
			bad = Behaviour{Kind: "bytes", Body: good[:len(good)/2]}
		}
		var script []Behaviour
		for j := 0; j < c.k; j++ {
			script = append(script, bad)
		}
		script = append(script, Behaviour{Kind: "bytes", Body: good})
		o.SetScript(s.path, script)
		// no trusted signers: the issuer is known from the verified chain of the connection only
		in, err := c15Provision(r, name, I, c.storage, "verify", c.fetch, nil, o, ca, "")
		if err != nil {
			r.Violate("C15 provision-failed", "first-load history: "+err.Error(), nil)
			return
		}
		defer c15Close(in.v)
		key := fmt.Sprintf("first-load fetch=%s kind=%s k=%d storage=%s", c.fetch, c.kind, c.k, c.storage)
		// the first handshake makes the location known (and is the first attempt). The validator's own refresh runs
		// (one right after Provision, then one per interval) may fetch the new location while this handshake is still
		// under way - between the entry being added and the handshake's own load or lookup - so the handshake can
		// already see the (k+1)-th, acceptable answer in force and rejects rightly. Only a verdict other than accept
		// that was given before the acceptable answer had even been requested means a failing answer decided.
		vd0, _ := in.v.Verify(c15Chains(s.listed, ca))
		if n0 := len(o.ScriptServed(s.path)); vd0 != "accept" && n0 <= c.k {
			r.Violate("C15 failing-answer-came-into-force kind="+c.kind,
				fmt.Sprintf("%s: the first handshake (lenient mode) was not accepted: %s, although only %d answers (all bad) had been served by then", key, vd0, n0), nil)
		} else if vd0 != "accept" {
			r.Count("first-load-history:first-handshake-saw-good-list")
		}
		t0 := time.Now()
		// background: attempts 2..k+1 are refresh runs, one per interval at worst; actively: every handshake is an attempt
		bound := c15Bound(I) + c.k*I + I
		ok := false
		var d time.Duration
		for time.Since(t0) < time.Duration(bound+4000)*time.Millisecond {
			pause := 4 * time.Millisecond
			if c.fetch == "fetch_actively" {
				pause = 40 * time.Millisecond
			}
			vd, _ := in.v.Verify(c15Chains(s.listed, ca))
			if n := len(o.ScriptServed(s.path)); vd == "reject" && n > c.k {
				ok, d = true, time.Since(t0)
				break
			} else if vd == "reject" {
				r.Violate("C15 failing-answer-came-into-force kind="+c.kind, fmt.Sprintf("%s: the certificate is rejected although only %d answers (all bad) had been served", key, n), nil)
				break
			}
			time.Sleep(pause)
		}
		if !ok || int(d/time.Millisecond) > bound {
			r.Violate("C15 first-load-not-retried-to-success kind="+c.kind+" fetch="+c.fetch,
				fmt.Sprintf("%s: after %d failing first loads the acceptable CRL was in force after %d ms (reached %v, %d requests seen; bound %d ms)", key, c.k, d.Milliseconds(), ok, o.Hits(s.path), bound), nil)
		}
		if vd, _ := in.v.Verify(c15Chains(s.other, ca)); ok && vd != "accept" {
			r.Violate("C15 first-load-unlisted-rejected", key+": the unlisted certificate is rejected after the list came into force", nil)
		}
		r.Op(fmt.Sprintf("sched inforce %d", c.k), "old,"+map[bool]string{true: "new", false: "old"}[ok])
		r.Eval("first-load/"+key, true)
		r.Count("first-load-history:" + c.fetch + "/" + c.kind)
	})
}

// c15NewCdpTraffic: fetch_background and a steady stream of connections whose certificates carry distribution points
// seen for the first time (a CA with sharded CRLs), one every interval/3. Every such connection starts a forced refresh
// run, and a run stamps the finish time that makes the next ticks skip: the CRLs which are in force already (a
// configured url, a CDP learned earlier) must be fetched again within the bound all the same, for as long as the
// stream lasts.
func c15NewCdpTraffic(r *Run) {
	storages := []string{"memory", "disk"}
	parallel(len(storages), 2, func(i int) {
		const I = 600
		o := NewConcOrigin()
		defer o.Close()
		ca := NewCA(CAOpts{CN: fmt.Sprintf("C15 new-cdp traffic CA %d", i), EC: true})
		signers := writeFile(scratchDir("c15-signers"), "ca.pem", certPEM(ca.Cert))
		name := fmt.Sprintf("nt%d", i)
		su := c15NewSource("crl_urls", name+"-url", o, ca, "")
		sc := c15NewSource("cdp", name+"-cdp", o, ca, "")
		in, err := c15Provision(r, name, I, storages[i], "verify", "fetch_background", []*c15Source{su}, o, ca, signers)
		if err != nil {
			r.Violate("C15 provision-failed", "new-cdp traffic: "+err.Error(), nil)
			return
		}
		defer c15Close(in.v)
		if _, ok := c15WaitVerdict(in.v, sc.listed, ca, "reject", 5*time.Second); !ok {
			r.Violate("C15 cdp-never-in-force", name+": the CDP CRL of a certificate never came into force after its first use", nil)
			return
		}
		stop, done := make(chan struct{}), make(chan struct{})
		go func() {
			defer close(done)
			defer func() { recover() }()
			for j := 0; ; j++ {
				nw := c15NewSource("cdp", fmt.Sprintf("%s-new%d", name, j), o, ca, "")
				in.v.Verify(c15Chains(nw.other, ca))
				r.Count("new-cdp-traffic:first-seen-distribution-points")
				select {
				case <-stop:
					return
				case <-time.After(I / 3 * time.Millisecond):
				}
			}
		}()
		time.Sleep(I * time.Millisecond) // the stream is under way before anything is published
		var wg sync.WaitGroup
		for _, s := range []*c15Source{su, sc} {
			wg.Add(1)
			go func(s *c15Source) {
				defer wg.Done()
				c15MeasureDelay(r, in, s, "new-cdp-traffic storage="+storages[i], 0)
			}(s)
		}
		wg.Wait()
		close(stop)
		<-done
	})
}

// ---- (4) Provision ---------------------------------------------------------------------------------

func c15ProvisionCases(r *Run) {
	type pc struct {
		fetch  string
		nu, nf int
		fail   int // -1 none
	}
	cases := []pc{{"active", 2, 1, -1}, {"background", 2, 1, -1}, {"active", 0, 2, -1}, {"background", 1, 0, -1}, {"background", 0, 0, -1},
		{"active", 2, 1, 1}, {"background", 2, 1, 0}, {"background", 1, 2, 2}, {"active", 1, 1, 1}}
	parallel(len(cases), 9, func(i int) {
		c := cases[i]
		o := NewConcOrigin()
		defer o.Close()
		ca := NewCA(CAOpts{CN: fmt.Sprintf("C15 prov CA %d", i), EC: true})
		signers := writeFile(scratchDir("c15-signers"), "ca.pem", certPEM(ca.Cert))
		dir := scratchDir("c15-files")
		var srcs []*c15Source
		for j := 0; j < c.nu; j++ {
			srcs = append(srcs, c15NewSource("crl_urls", fmt.Sprintf("p%d-u%d", i, j), o, ca, dir))
		}
		for j := 0; j < c.nf; j++ {
			srcs = append(srcs, c15NewSource("crl_files", fmt.Sprintf("p%d-f%d", i, j), o, ca, dir))
		}
		if c.fail >= 0 {
			s := srcs[c.fail]
			if s.kind == "crl_files" {
				os.Remove(s.path)
			} else {
				o.Set(s.path, Behaviour{Kind: "bytes", Body: []byte("not a crl")})
			}
		}
		fm := map[string]string{"active": "fetch_actively", "background": "fetch_background"}[c.fetch]
		in, err := c15Provision(r, fmt.Sprintf("p%d", i), 300, []string{"memory", "disk"}[i%2], "", fm, srcs, o, ca, signers)
		fl := "-"
		if c.fail >= 0 {
			fl = fmt.Sprint(c.fail)
		}
		op := fmt.Sprintf("sched provision %s %d %d %s", c.fetch, c.nu, c.nf, fl)
		if err != nil {
			r.Op(op, "error")
			if c.fail < 0 {
				r.Violate("C15 provision-failed fetch="+c.fetch, fmt.Sprintf("valid configuration (%d urls, %d files) failed to provision: %v", c.nu, c.nf, err), c)
			}
			r.Eval("provision/"+op, true)
			return
		}
		defer c15Close(in.v)
		// immediately after Provision returned: a listed serial without CDP is rejected for every configured CRL
		inforce := 0
		for _, s := range srcs {
			if vd, _ := in.v.Verify(c15Chains(s.listed, ca)); vd == "reject" {
				inforce++
			} else {
				r.Violate("C15 configured-crl-not-in-force-after-provision fetch="+c.fetch+" source="+s.kind,
					fmt.Sprintf("Provision returned ok but a certificate listed in the configured %s is accepted", s.kind), c)
			}
		}
		// the ticker is running: the first configured location is fetched again shortly (none configured: trust Provision)
		ticker := true
		if len(srcs) > 0 && srcs[0].kind == "crl_urls" {
			before := o.Hits(srcs[0].path)
			time.Sleep(700 * time.Millisecond)
			ticker = o.Hits(srcs[0].path) > before
		}
		r.Op(op, fmt.Sprintf("ok inforce=%d/%d ticker=%v", inforce, len(srcs), ticker))
		if c.fail >= 0 {
			r.Violate("C15 provision-ok-with-unloadable-crl", fmt.Sprintf("Provision returned ok although configured CRL %d could not be loaded", c.fail), c)
		}
		r.Eval("provision/"+op, len(srcs) > 0)
		r.Count("provision-case")
	})
}
