package main

import (
	"fmt"
	"math/rand"
	"os"
	"regexp"
	"strconv"
	"strings"
	"time"
)

// Properties decided over repository histories: C01 (soundness), C08 (refresh all-or-nothing, sequential part),
// C10 (CDP strictness), C11 (precision), C16 (signature policy uniform). One history runner, per-property oracles.

func init() {
	register("C01", func(r *Run) {
		runRepoProps(r, "C01")
		r.rule += "; whole-validator stream: mode x OCSP scenario (none, good, unknown, revoked, unavailable, cached) x CRL source (CDP, crl_urls, crl_files) x list " +
			"size x position x encoding x serial width x entry extensions x backend, verdict compared with the regenerated statement list of VerifyClientCertificate"
		c01Validator(r)
		c11Numberless(r, "C01")
		c01NameLayouts(r)
	})
	register("C08", func(r *Run) {
		runRepoProps(r, "C08")
		r.rule += "; plus refresh scenarios with lists that carry no cRLNumber, the same thisUpdate or the same number (the refreshed list must be in force)"
		c11Numberless(r, "C08")
	})
	register("C10", func(r *Run) {
		runRepoProps(r, "C10")
		c10LoaderStream(r)
		r.rule += "; plus confusable distribution-point sets (a set loaded first, then a set that differs only by how its strings are glued together and serves nothing) on the real validator, strict"
		c10ConfusableCdpSets(r)
	})
	register("C11", func(r *Run) {
		runRepoProps(r, "C11")
		r.rule += "; plus refresh scenarios with lists that carry no cRLNumber (v1, v2 without the extension), the same thisUpdate or the same number"
		c11Numberless(r, "C11")
		c11Confusables(r)
	})
	register("C16", func(r *Run) { runRepoProps(r, "C16") })
}

type repoEntryObs struct {
	loaded, closed bool
	num            int // -1 = none
}

var repoSnapRe = regexp.MustCompile(`E\[([^\]]*)\]`)

func parseRepoSnapshot(obs string) (map[int]repoEntryObs, bool) {
	m := repoSnapRe.FindStringSubmatch(obs)
	if m == nil || m[1] == "*" {
		return nil, false
	}
	out := map[int]repoEntryObs{}
	if m[1] == "" {
		return out, true
	}
	for _, it := range strings.Split(m[1], ",") {
		p := strings.Split(it, ":")
		if len(p) != 4 {
			continue
		}
		loc, _ := strconv.Atoi(p[0])
		e := repoEntryObs{loaded: p[1] == "L1", closed: p[2] == "C1", num: -1}
		if n, err := strconv.Atoi(p[3]); err == nil {
			e.num = n
		}
		out[loc] = e
	}
	return out, true
}

func containsInt(l []int, x int) bool {
	for _, y := range l {
		if y == x {
			return true
		}
	}
	return false
}

func runRepoProps(r *Run, focus string) {
	r.rule = "scripted histories (serve down/garbage/document with signer and serial set, handshake with issuer/serial/CDP/chain, refresh tick, " +
		"provision of a configured CRL, restart, shutdown) on the real checker, every step compared with the Lean repository model; " +
		"configurations signature mode x fetch mode x strict x backend; a history is non-trivial when at least one CRL came into force; " +
		"oracle of " + focus + " evaluated on the implementation's observations"
	nHist := 140
	length := 9
	if r.Thorough() {
		nHist, length = 2500, 22
	}
	type job struct {
		cfg repoCfg
		ops []repoOp
		pem bool
	}
	var jobs []job
	sigs := []string{"verify", "verify_log", "none"}
	g := &repoGen{rng: rand.New(rand.NewSource(r.Rng.Int63()))}
	for i := 0; i < nHist; i++ {
		cfg := repoCfg{Sig: sigs[i%3], Fetch: []string{"actively", "actively", "background"}[(i/3)%3], Strict: (i/9)%2 == 0, Disk: (i/18)%2 == 0}
		switch focus {
		case "C10":
			cfg.Strict = i%4 != 3
		case "C16":
			cfg.Sig = sigs[i%3]
		}
		jobs = append(jobs, job{cfg, g.history(cfg, length), i%5 == 0})
	}
	// corpus: the historical witnesses first
	corpus := []job{
		// rejected first load must leave nothing; genuine CRL afterwards
		{repoCfg{"verify", "actively", false, false}, []repoOp{
			{Kind: "serve", Loc: 1, Served: "doc", Doc: &repoDoc{Signer: 9, Number: 901, Serials: []int64{13}}},
			{Kind: "hs", Issuer: 7, Serial: 13, CDP: 1, Cands: []int{1}},
			{Kind: "serve", Loc: 1, Served: "doc", Doc: &repoDoc{Signer: 1, Number: 902, Serials: []int64{10}}},
			{Kind: "hs", Issuer: 7, Serial: 13, CDP: 1, Cands: []int{1}},
			{Kind: "hs", Issuer: 7, Serial: 10, CDP: 1, Cands: []int{1}}}, false},
		// same on disk with a restart in between
		{repoCfg{"verify", "actively", true, true}, []repoOp{
			{Kind: "serve", Loc: 1, Served: "doc", Doc: &repoDoc{Signer: 9, Number: 903, Serials: []int64{13}}},
			{Kind: "hs", Issuer: 7, Serial: 13, CDP: 1, Cands: []int{1}},
			{Kind: "restart"},
			{Kind: "serve", Loc: 1, Served: "down"},
			{Kind: "hs", Issuer: 7, Serial: 13, CDP: 1, Cands: []int{1}}}, false},
		// lenient mode, CDP with only an unsupported scheme
		{repoCfg{"verify", "actively", false, true}, []repoOp{{Kind: "hs", Issuer: 7, Serial: 10, CDP: 4, Cands: []int{1}}}, false},
		// (found by the proof of C16.verify_in_force_was_verified) a list taken in unverified, restart under verify, a provisioning
		// whose refresh fails verification, a second one that presents the new list's signer while the origin is down (the
		// signer-certificate retry writes into the store that still holds the OLD list), restart
		{repoCfg{"none", "background", false, true}, []repoOp{
			{Kind: "serve", Loc: 11, Served: "doc", Doc: &repoDoc{Signer: 9, Number: 911, Serials: []int64{10}}},
			{Kind: "provision", Loc: 11, Cands: nil},
			{Kind: "restartcfg", Sig: "verify"},
			{Kind: "serve", Loc: 11, Served: "doc", Doc: &repoDoc{Signer: 2, Number: 912, Serials: []int64{11}}},
			{Kind: "provision", Loc: 11, Cands: []int{1}},
			{Kind: "serve", Loc: 11, Served: "down"},
			{Kind: "provision", Loc: 11, Cands: []int{2}},
			{Kind: "restart"},
			{Kind: "provision", Loc: 11, Cands: []int{1}},
			{Kind: "hs", Issuer: 7, Serial: 10, CDP: 0, Cands: []int{1}}}, false},
		// a closed repository that is handed a new location whose list is found in the work directory (background mode, restart,
		// failed provisioning, shutdown, handshake): the walk meets the closed entry or the listing one first (map order)
		{repoCfg{"verify", "background", false, true}, []repoOp{
			{Kind: "serve", Loc: 2, Served: "doc", Doc: &repoDoc{Signer: 3, Number: 931, Serials: []int64{12}}},
			{Kind: "hs", Issuer: 8, Serial: 12, CDP: 2, Cands: []int{3}}, {Kind: "tick"},
			{Kind: "hs", Issuer: 8, Serial: 12, CDP: 2, Cands: []int{3}}, {Kind: "tick"},
			{Kind: "restart"},
			{Kind: "provision", Loc: 11, Cands: []int{1}},
			{Kind: "close"},
			{Kind: "hs", Issuer: 8, Serial: 12, CDP: 2, Cands: []int{3}}, {Kind: "tick"}}, false},
		// (seeded defect C16-f) verify_log on disk: unverifiable first list, a genuine list no stored signer can vouch for, a forged
		// list, a connection that presents the genuine signer, restart under verify: the forged list must not be in force
		{repoCfg{"verify_log", "actively", false, true}, []repoOp{
			{Kind: "serve", Loc: 1, Served: "doc", Doc: &repoDoc{Signer: 9, Number: 921, Serials: []int64{13}}},
			{Kind: "hs", Issuer: 7, Serial: 13, CDP: 1, Cands: []int{1}},
			{Kind: "serve", Loc: 1, Served: "doc", Doc: &repoDoc{Signer: 1, Number: 922, Serials: []int64{10}}},
			{Kind: "tick"},
			{Kind: "serve", Loc: 1, Served: "doc", Doc: &repoDoc{Signer: 9, Number: 923, Serials: []int64{14}}},
			{Kind: "tick"},
			{Kind: "hs", Issuer: 7, Serial: 14, CDP: 1, Cands: []int{1}},
			{Kind: "restartcfg", Sig: "verify"},
			{Kind: "hs", Issuer: 7, Serial: 14, CDP: 1, Cands: []int{1}},
			{Kind: "hs", Issuer: 7, Serial: 10, CDP: 1, Cands: []int{1}}}, false},
		// lenient / strict, a distribution point whose URL cannot be parsed (alone, and next to a usable one)
		{repoCfg{"verify", "actively", false, true}, []repoOp{{Kind: "hs", Issuer: 7, Serial: 10, CDP: 6, Cands: []int{1}}, {Kind: "hs", Issuer: 7, Serial: 10, CDP: 7, Cands: []int{1}}}, false},
		{repoCfg{"none", "background", false, false}, []repoOp{{Kind: "hs", Issuer: 7, Serial: 10, CDP: 7, Cands: []int{1}}, {Kind: "tick"}, {Kind: "hs", Issuer: 8, Serial: 11, CDP: 6, Cands: []int{3}}, {Kind: "tick"}}, false},
		{repoCfg{"verify", "actively", true, false}, []repoOp{{Kind: "hs", Issuer: 7, Serial: 10, CDP: 6, Cands: []int{1}}, {Kind: "hs", Issuer: 7, Serial: 10, CDP: 7, Cands: []int{1}}}, false},
		// none/verify_log with an unverifiable signer must still refresh; provisioning of a configured CRL
		{repoCfg{"none", "actively", false, true}, []repoOp{
			{Kind: "serve", Loc: 11, Served: "doc", Doc: &repoDoc{Signer: 9, Number: 904, Serials: []int64{10}}},
			{Kind: "provision", Loc: 11, Cands: nil},
			{Kind: "serve", Loc: 11, Served: "doc", Doc: &repoDoc{Signer: 9, Number: 905, Serials: []int64{11}}},
			{Kind: "tick"},
			{Kind: "hs", Issuer: 7, Serial: 11, CDP: 0, Cands: []int{1}}}, false},
		// background mode: first use spawns the load, refresh must work afterwards
		{repoCfg{"verify", "background", true, true}, []repoOp{
			{Kind: "serve", Loc: 1, Served: "doc", Doc: &repoDoc{Signer: 1, Number: 906, Serials: []int64{10}}},
			{Kind: "hs", Issuer: 7, Serial: 10, CDP: 1, Cands: []int{1}}, {Kind: "tick"},
			{Kind: "hs", Issuer: 7, Serial: 10, CDP: 1, Cands: []int{1}},
			{Kind: "serve", Loc: 1, Served: "doc", Doc: &repoDoc{Signer: 1, Number: 907, Serials: []int64{11}}},
			{Kind: "tick"},
			{Kind: "hs", Issuer: 7, Serial: 11, CDP: 1, Cands: []int{1}}}, false},
		// refresh failing signature verification, then the next handshake (former deadlock)
		{repoCfg{"verify", "actively", false, false}, []repoOp{
			{Kind: "serve", Loc: 1, Served: "doc", Doc: &repoDoc{Signer: 1, Number: 908, Serials: []int64{10}}},
			{Kind: "hs", Issuer: 7, Serial: 10, CDP: 1, Cands: []int{1}},
			{Kind: "serve", Loc: 1, Served: "doc", Doc: &repoDoc{Signer: 2, Number: 909, Serials: []int64{11}}},
			{Kind: "tick"},
			{Kind: "hs", Issuer: 7, Serial: 11, CDP: 1, Cands: []int{1}},
			{Kind: "hs", Issuer: 7, Serial: 11, CDP: 1, Cands: []int{2}}, {Kind: "tick"},
			{Kind: "hs", Issuer: 7, Serial: 11, CDP: 1, Cands: []int{2}}}, false},
		// shutdown: lookups afterwards must not report not-revoked
		{repoCfg{"verify", "actively", false, true}, []repoOp{
			{Kind: "serve", Loc: 1, Served: "doc", Doc: &repoDoc{Signer: 1, Number: 910, Serials: []int64{10}}},
			{Kind: "hs", Issuer: 7, Serial: 10, CDP: 1, Cands: []int{1}},
			{Kind: "close"},
			{Kind: "hs", Issuer: 7, Serial: 10, CDP: 0, Cands: []int{1}}}, false},
	}
	jobs = append(corpus, jobs...)
	parallel(len(jobs), 24, func(i int) {
		j := jobs[i]
		var ops, obs []string
		if os.Getenv("VERIF_TIMING") != "" {
			t0 := time.Now()
			defer func() {
				downs := 0
				for _, o := range j.ops {
					if o.Served == "down" {
						downs++
					}
				}
				fmt.Fprintf(os.Stdout, "TIMING history %d: %d ops, %d down, %.1fs cfg=%+v\n", i, len(j.ops), downs, time.Since(t0).Seconds(), j.cfg)
			}()
		}
		steps, w, err := runRepoHistory(r, j.cfg, j.ops, j.pem, func(o, ob string) { ops = append(ops, o); obs = append(obs, ob) })
		if err != nil {
			r.Violate(focus+" provision-failed", err.Error(), j.cfg)
			return
		}
		defer w.close()
		r.OpBlock(ops, obs)
		repoOracles(r, focus, i, j.cfg, steps, w)
	})
}

func repoOracles(r *Run, focus string, idx int, cfg repoCfg, steps []repoStep, w *repoWorld) {
	prev := map[int]repoEntryObs{}
	presented := map[int]map[int]bool{} // loc -> signer ids ever presented as candidates for it
	anyForce := false
	var trace []string
	note := func(loc int, cands []int) {
		if presented[loc] == nil {
			presented[loc] = map[int]bool{}
		}
		for _, c := range cands {
			presented[loc][c] = true
		}
	}
	served := map[int]repoOp{}
	failedVerify := map[int]int{}  // loc -> number of the served document whose refresh just failed signature verification
	vouched := map[int]int{}       // loc -> that number, once a connection for the location presented the document's signer
	createdWith := map[int][]int{} // loc -> candidates presented by the handshake that made the location known
	// the signer certificate a location's store holds is not always the signer of the list it holds: after a refresh that
	// failed verification, a connection presenting the rejected list's signer replaces the stored certificate (key roll-over),
	// whatever the location serves by then. failedSigner: signer of the list rejected by the last refresh; storedSigner: the
	// replacement, until the next list is installed.
	failedSigner := map[int]int{}
	storedSigner := map[int]int{}
	viol := func(prop, sig, detail string) {
		if prop == focus {
			r.Violate(prop+" "+sig, fmt.Sprintf("cfg=%+v history#%d: %s | trace: %s", cfg, idx, detail, strings.Join(trace, " ; ")),
				map[string]interface{}{"cfg": cfg, "trace": append([]string{}, trace...)})
		}
	}
	for _, st := range steps {
		o := st.Op
		trace = append(trace, o.line()+" => "+st.Obs)
		if o.Kind == "serve" {
			served[o.Loc] = o
			continue
		}
		if o.Kind == "restartcfg" {
			cfg.Sig = o.Sig // what the oracles below judge by is the mode the process runs with now
		}
		if o.Kind == "restart" || o.Kind == "restartcfg" {
			// what a running process remembers about its last refresh (the failed-verification flag and the rejected list) is gone
			failedVerify = map[int]int{}
			vouched = map[int]int{}
			failedSigner = map[int]int{}
		}
		cur, ok := parseRepoSnapshot(st.Obs)
		if !ok {
			cur = prev // racy snapshot (spawned background load): judged at the following tick
		}
		switch o.Kind {
		case "hs":
			note(o.CDP, o.Cands)
			if sv, has := served[o.CDP]; has && sv.Served == "doc" && failedVerify[o.CDP] == sv.Doc.Number && containsInt(o.Cands, sv.Doc.Signer) {
				vouched[o.CDP] = sv.Doc.Number
			}
			if fs, has := failedSigner[o.CDP]; has && containsInt(o.Cands, fs) {
				storedSigner[o.CDP] = fs
				delete(failedSigner, o.CDP)
			}
		case "provision":
			note(o.Loc, o.Cands)
		}
		inForce := func(loc int) (repoDoc, bool) {
			e, ok := cur[loc]
			if !ok || !e.loaded || e.closed || e.num < 0 {
				return repoDoc{}, false
			}
			d, ok := w.docs[loc][e.num]
			return d, ok
		}
		anyClosed := false
		for _, e := range cur {
			if e.closed {
				anyClosed = true
			}
		}
		// --- acceptance events (C16 / C04 at the policy level) ---
		for loc, e := range cur {
			p, had := prev[loc]
			if e.loaded && !e.closed && e.num >= 0 && (!had || p.num != e.num || !p.loaded) {
				anyForce = true
				d, known := w.docs[loc][e.num]
				if !known {
					viol("C11", "unknown-document-in-force", fmt.Sprintf("loc %d shows CRL number %d which was never served there", loc, e.num))
					continue
				}
				if cfg.Sig == "verify" {
					if d.Signer == 9 || !presented[loc][d.Signer] {
						viol("C16", "verify-accepted-unverifiable sig=verify", fmt.Sprintf("loc %d: CRL #%d signed by %d came into force under 'verify' although that signer was never available", loc, e.num, d.Signer))
						viol("C04", "unentitled-signer-accepted", fmt.Sprintf("loc %d: CRL #%d signed by %d in force under verify", loc, e.num, d.Signer))
					}
				}
			}
		}
		// --- a location that is known but not loaded: the next run must bring an acceptable document into force (C08/C16) ---
		for loc := range cur {
			if _, had := prev[loc]; !had {
				createdWith[loc] = nil
				if o.Kind == "hs" && o.CDP == loc {
					createdWith[loc] = append([]int{}, o.Cands...)
				}
			}
		}
		if o.Kind == "tick" && ok {
			for loc, p := range prev {
				e, still := cur[loc]
				sv, has := served[loc]
				if p.loaded || p.closed || !still || e.closed || !has || sv.Served != "doc" {
					continue
				}
				acceptable := cfg.Sig != "verify" || (sv.Doc.Signer != 9 && containsInt(createdWith[loc], sv.Doc.Signer))
				if acceptable && !(e.loaded && e.num == sv.Doc.Number) {
					viol("C08", "later-load-not-installed", fmt.Sprintf("loc %d: known but not loaded, an acceptable CRL #%d is served, the run left it unloaded (loaded=%v number=%d)", loc, sv.Doc.Number, e.loaded, e.num))
					viol("C16", "acceptable-crl-not-loaded sig="+cfg.Sig, fmt.Sprintf("loc %d: acceptable CRL #%d not loaded by the run", loc, sv.Doc.Number))
				}
			}
		}
		// --- refresh outcome (C08 / C16) ---
		if o.Kind == "tick" {
			for loc, p := range prev {
				if !p.loaded || p.closed || p.num < 0 {
					continue
				}
				e := cur[loc]
				sv, has := served[loc]
				if !has {
					continue
				}
				failing := sv.Served == "down" || sv.Served == "garbage" || (cfg.Sig == "verify" && sv.Served == "doc" && !presented[loc][sv.Doc.Signer])
				if failing && (!e.loaded || e.num != p.num) {
					viol("C08", "failed-refresh-changed-crl", fmt.Sprintf("loc %d: refresh against %s left number %d (loaded=%v), before %d", loc, sv.Served, e.num, e.loaded, p.num))
				}
				if sv.Served == "doc" && cfg.Sig != "verify" && !(e.loaded && e.num == sv.Doc.Number) {
					viol("C16", "parseable-crl-not-refreshed sig="+cfg.Sig, fmt.Sprintf("loc %d: under %s the refresh did not install served CRL #%d (now %d)", loc, cfg.Sig, sv.Doc.Number, e.num))
					viol("C08", "successful-refresh-not-installed", fmt.Sprintf("loc %d: CRL #%d not installed", loc, sv.Doc.Number))
				}
				wantSigner := signerOf(w, loc, p.num)
				if ss, has := storedSigner[loc]; has {
					wantSigner = ss
				}
				if e.loaded && e.num != p.num {
					delete(storedSigner, loc) // a new list came in: the store holds its signer
				}
				if sv.Served == "doc" && cfg.Sig == "verify" && sv.Doc.Signer == wantSigner && !(e.loaded && e.num == sv.Doc.Number) {
					viol("C08", "successful-refresh-not-installed", fmt.Sprintf("loc %d: CRL #%d by the same signer not installed (now %d)", loc, sv.Doc.Number, e.num))
				}
				// a refresh that failed verification, then a connection presenting the right signer (which replaces the stored signer
				// certificate), then the same document again: this refresh is a successful one and must take effect
				if sv.Served == "doc" && cfg.Sig == "verify" && vouched[loc] == sv.Doc.Number && !(e.loaded && e.num == sv.Doc.Number) {
					viol("C08", "refresh-after-failed-verification-not-installed", fmt.Sprintf("loc %d: CRL #%d failed verification at the previous refresh, its signer %d was presented by a later connection, the next refresh did not install it (now %d)", loc, sv.Doc.Number, sv.Doc.Signer, e.num))
				}
				if sv.Served == "doc" && cfg.Sig == "verify" && e.loaded && e.num == p.num && p.num != sv.Doc.Number && sv.Doc.Signer != 9 {
					failedVerify[loc] = sv.Doc.Number
					failedSigner[loc] = sv.Doc.Signer
				} else {
					delete(failedVerify, loc)
					delete(failedSigner, loc)
				}
				delete(vouched, loc)
			}
		}
		if o.Kind == "provision" && strings.HasPrefix(st.Obs, "ok") && cfg.Sig == "verify" {
			// provisioning that succeeds under verify took the configured CRL in under the signers trusted NOW (also when the
			// list was found on disk after a restart)
			if d, ok := inForce(o.Loc); ok && !containsInt(o.Cands, d.Signer) {
				viol("C16", "provision-ok-with-unverifiable-crl sig=verify", fmt.Sprintf("configured CRL at loc %d (#%d signed by %d) is in force after a successful provisioning with trusted signers %v", o.Loc, d.Number, d.Signer, o.Cands))
			}
		}
		if o.Kind == "provision" && strings.HasPrefix(st.Obs, "ok") {
			if _, ok := inForce(o.Loc); !ok {
				viol("C16", "provision-ok-but-not-in-force", fmt.Sprintf("configured CRL at loc %d not in force after provisioning succeeded", o.Loc))
			}
		}
		// --- verdicts ---
		if o.Kind == "hs" {
			status := strings.Fields(st.Obs)[0]
			r.Count("status:" + status)
			listed := false
			for loc := range cur {
				if d, ok := inForce(loc); ok && d.issuer() == o.Issuer && containsInt64(d.Serials, o.Serial) {
					listed = true
				}
			}
			if _, snapOK := parseRepoSnapshot(st.Obs); snapOK {
				if listed && status == "notRevoked" {
					viol("C01", "listed-but-accepted", fmt.Sprintf("issuer %d serial %d is listed in a CRL in force but the lookup said not revoked", o.Issuer, o.Serial))
				}
				if !listed && status == "revoked" {
					viol("C11", "revoked-but-not-listed", fmt.Sprintf("issuer %d serial %d reported revoked, no CRL in force lists it", o.Issuer, o.Serial))
				}
				if cfg.Strict && o.CDP != 0 && status == "notRevoked" {
					if _, ok := inForce(o.CDP); !ok {
						viol("C10", "strict-accepted-without-crl", fmt.Sprintf("strict: certificate with CDP %d accepted while no CRL for it is in force", o.CDP))
					}
				}
				if !cfg.Strict && status == "error" && !anyClosed {
					viol("C10", "lenient-denied", fmt.Sprintf("lenient: certificate with CDP %d denied by an error", o.CDP))
				}
				if anyClosed && status == "notRevoked" && len(cur) > 0 {
					viol("C09", "lookup-after-close-not-revoked", "lookup after shutdown reported not revoked")
				}
			}
		}
		if ok {
			prev = cur
		}
	}
	key := fmt.Sprintf("%+v/%d", cfg, idx)
	r.Eval(key, anyForce)
	r.Count(fmt.Sprintf("cfg:%s/%s/strict=%v/disk=%v", cfg.Sig, cfg.Fetch, cfg.Strict, cfg.Disk))
	if idx < 3 {
		r.Sample(map[string]interface{}{"cfg": cfg, "trace": trace})
	}
}

func signerOf(w *repoWorld, loc, num int) int {
	if d, ok := w.docs[loc][num]; ok {
		return d.Signer
	}
	return -1
}

func containsInt64(l []int64, x int64) bool {
	for _, y := range l {
		if y == x {
			return true
		}
	}
	return false
}
