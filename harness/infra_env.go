package main

import (
	"context"
	"crypto/x509"
	"encoding/json"
	"fmt"
	"net"
	"net/http"
	"net/http/httptest"
	"os"
	"path/filepath"
	"sync"
	"sync/atomic"
	"time"

	"github.com/caddyserver/caddy/v2"
	revocation "github.com/gr33nbl00d/caddy-revocation-validator"
)

// ---- scriptable origin ------------------------------------------------------

type Behaviour struct {
	Kind   string // "bytes", "status", "drop" (close the connection without answering)
	Body   []byte
	Status int
	Delay  time.Duration // wait before answering
}

type Origin struct {
	srv  *httptest.Server
	mu   sync.Mutex
	beh  map[string]Behaviour
	hits map[string]*int64
	log  []string
	gate map[string]chan struct{} // path -> requests wait (after being counted) until the channel is closed
}

func NewOrigin() *Origin {
	o := &Origin{beh: map[string]Behaviour{}, hits: map[string]*int64{}}
	o.srv = httptest.NewServer(http.HandlerFunc(o.handle))
	return o
}

func (o *Origin) handle(w http.ResponseWriter, r *http.Request) {
	o.mu.Lock()
	b, ok := o.beh[r.URL.Path]
	h := o.hits[r.URL.Path]
	if h == nil {
		h = new(int64)
		o.hits[r.URL.Path] = h
	}
	o.log = append(o.log, r.URL.Path)
	g := o.gate[r.URL.Path]
	o.mu.Unlock()
	atomic.AddInt64(h, 1)
	if g != nil {
		select {
		case <-g:
		case <-time.After(10 * time.Second):
		}
	}
	if !ok {
		w.WriteHeader(404)
		return
	}
	if b.Delay > 0 {
		time.Sleep(b.Delay)
	}
	switch b.Kind {
	case "drop":
		if hj, ok := w.(http.Hijacker); ok {
			c, _, err := hj.Hijack()
			if err == nil {
				c.Close()
				return
			}
		}
		w.WriteHeader(500)
	case "status":
		w.WriteHeader(b.Status)
		w.Write(b.Body)
	default:
		w.Write(b.Body)
	}
}

// Hold makes every request for path wait (after it has been counted) until the returned function is called.
func (o *Origin) Hold(path string) (release func()) {
	g := make(chan struct{})
	o.mu.Lock()
	if o.gate == nil {
		o.gate = map[string]chan struct{}{}
	}
	o.gate[path] = g
	o.mu.Unlock()
	return func() {
		o.mu.Lock()
		if o.gate[path] == g {
			delete(o.gate, path)
		}
		o.mu.Unlock()
		close(g)
	}
}

func (o *Origin) Set(path string, b Behaviour) {
	o.mu.Lock()
	defer o.mu.Unlock()
	o.beh[path] = b
}

func (o *Origin) SetBytes(path string, body []byte) {
	o.Set(path, Behaviour{Kind: "bytes", Body: body})
}

func (o *Origin) URL(path string) string { return o.srv.URL + path }

func (o *Origin) Hits(path string) int64 {
	o.mu.Lock()
	h := o.hits[path]
	o.mu.Unlock()
	if h == nil {
		return 0
	}
	return atomic.LoadInt64(h)
}

func (o *Origin) TotalHits() int64 {
	o.mu.Lock()
	defer o.mu.Unlock()
	var t int64
	for _, h := range o.hits {
		t += atomic.LoadInt64(h)
	}
	return t
}

func (o *Origin) Close() { o.srv.Close() }

// refusedURL returns an http URL on which nothing listens.
func refusedURL(path string) string {
	l, err := net.Listen("tcp", "127.0.0.1:0")
	must(err)
	addr := l.Addr().String()
	l.Close()
	return "http://" + addr + path
}

// ---- validator --------------------------------------------------------------

type VCfg struct {
	Mode           string
	NoCRLConfig    bool
	WorkDir        string
	Storage        string
	UpdateInterval string
	SigMode        string
	CRLUrls        []string
	CRLFiles       []string
	TrustedSigners []string
	FetchMode      string
	CDPStrict      bool
	NoCDPConfig    bool
	OCSPCacheDur   string
	OCSPStrict     bool
	OCSPTrusted    []string
	NoOCSPConfig   bool
}

func (v VCfg) JSON() []byte {
	m := map[string]interface{}{}
	if v.Mode != "" {
		m["mode"] = v.Mode
	}
	if !v.NoCRLConfig {
		c := map[string]interface{}{"work_dir": v.WorkDir}
		if v.Storage != "" {
			c["storage_type"] = v.Storage
		}
		if v.UpdateInterval != "" {
			c["update_interval"] = v.UpdateInterval
		}
		if v.SigMode != "" {
			c["signature_validation_mode"] = v.SigMode
		}
		if len(v.CRLUrls) > 0 {
			c["crl_urls"] = v.CRLUrls
		}
		if len(v.CRLFiles) > 0 {
			c["crl_files"] = v.CRLFiles
		}
		if len(v.TrustedSigners) > 0 {
			c["trusted_signature_certs_files"] = v.TrustedSigners
		}
		if !v.NoCDPConfig {
			cdp := map[string]interface{}{}
			if v.FetchMode != "" {
				cdp["crl_fetch_mode"] = v.FetchMode
			}
			if v.CDPStrict {
				cdp["crl_cdp_strict"] = true
			}
			c["cdp_config"] = cdp
		}
		m["crl_config"] = c
	}
	if !v.NoOCSPConfig {
		o := map[string]interface{}{}
		if v.OCSPCacheDur != "" {
			o["default_cache_duration"] = v.OCSPCacheDur
		}
		if v.OCSPStrict {
			o["ocsp_aia_strict"] = true
		}
		if len(v.OCSPTrusted) > 0 {
			o["trusted_responder_certs_files"] = v.OCSPTrusted
		}
		m["ocsp_config"] = o
	}
	b, err := json.Marshal(m)
	must(err)
	return b
}

type Validator struct {
	V      *revocation.CertRevocationValidator
	cancel context.CancelFunc
	closed bool
}

func ProvisionJSON(js []byte) (val *Validator, err error) {
	defer func() {
		if r := recover(); r != nil {
			val, err = nil, fmt.Errorf("panic during Provision: %v", r)
		}
	}()
	v := &revocation.CertRevocationValidator{}
	if err := json.Unmarshal(js, v); err != nil {
		return nil, fmt.Errorf("json: %w", err)
	}
	ctx, cancel := caddy.NewContext(caddy.Context{Context: context.Background()})
	if err := v.Provision(ctx); err != nil {
		// release whatever Provision registered
		func() {
			defer func() { recover() }()
			v.Cleanup()
		}()
		cancel()
		return nil, err
	}
	return &Validator{V: v, cancel: cancel}, nil
}

func Provision(cfg VCfg) (*Validator, error) { return ProvisionJSON(cfg.JSON()) }

func (v *Validator) Close() {
	if v.closed {
		return
	}
	v.closed = true
	func() {
		defer func() { recover() }()
		v.V.Cleanup()
	}()
	v.cancel()
}

// Verify classifies the handshake verdict: "accept", "reject", or "panic".
func (v *Validator) Verify(chains [][]*x509.Certificate) (verdict string, err error) {
	defer func() {
		if r := recover(); r != nil {
			verdict = "panic"
			err = fmt.Errorf("panic: %v", r)
		}
	}()
	e := v.V.VerifyClientCertificate(nil, chains)
	if e != nil {
		return "reject", e
	}
	return "accept", nil
}

// ---- scratch ----------------------------------------------------------------

var scratchRoot string

func scratchDir(name string) string {
	d, err := os.MkdirTemp(scratchRoot, name+"-")
	must(err)
	return d
}

func writeFile(dir, name string, b []byte) string {
	p := filepath.Join(dir, name)
	must(os.WriteFile(p, b, 0600))
	return p
}

func listDir(dir string) []string {
	es, err := os.ReadDir(dir)
	if err != nil {
		return []string{"<err:" + err.Error() + ">"}
	}
	var out []string
	for _, e := range es {
		out = append(out, e.Name())
	}
	return out
}
