package main

import (
	"crypto/x509"
	"crypto/x509/pkix"
	"encoding/asn1"
	"fmt"
	"math/big"
	"sort"
	"time"
)

// c11Numberless: superseded lists whose CRLs carry no cRLNumber (every v1 CRL; v2 CRLs without the extension), and lists
// re-issued with the same thisUpdate: after the refresh the entries of the old list must not outlive it and the entries of
// the new one must count (C11 "superseded", C08 "a successful refresh takes effect", C01). The history framework tells lists
// apart by their number, so these shapes have their own scenario; the verdict sequence is compared with the model's
// replace-not-merge store (`kv` stream) through the oracle only.
func c11Numberless(r *Run, focus string) {
	type nc struct {
		Storage string `json:"storage"`
		Source  string `json:"source"` // url | cdp
		Shape   string `json:"shape"`  // v1 | v2-no-number | same-thisupdate | same-number
	}
	var cases []nc
	for _, st := range []string{"memory", "disk"} {
		for _, src := range []string{"url", "cdp"} {
			for _, sh := range []string{"v1", "v2-no-number", "same-thisupdate", "same-number"} {
				cases = append(cases, nc{st, src, sh})
			}
		}
	}
	origin := NewOrigin()
	defer origin.Close()
	parallel(len(cases), 8, func(i int) {
		c := cases[i]
		ca := NewCA(CAOpts{CN: fmt.Sprintf("C11 numberless CA %d", i), EC: true})
		caFile := writeFile(scratchDir("c11nca"), "ca.pem", certPEM(ca.Cert))
		path := fmt.Sprintf("/c11n/%d.crl", i)
		lo := LeafOpts{}
		if c.Source == "cdp" {
			lo.CDP = []string{origin.URL(path)}
		}
		old, neu, free := ca.IssueLeaf(lo), ca.IssueLeaf(lo), ca.IssueLeaf(lo)
		t1 := time.Now().Add(-2 * time.Hour).UTC().Truncate(time.Second)
		t2 := t1.Add(time.Hour)
		nu := time.Now().Add(24 * time.Hour).UTC().Truncate(time.Second)
		build := func(serials []*big.Int, this time.Time, number int64) []byte {
			spec := CRLSpec{Alg: sigAlgs[7], IssuerRaw: ca.Cert.RawSubject, ThisUpdate: this, NextUpdate: &nu, Signer: ca.Key}
			for _, s := range serials {
				spec.Entries = append(spec.Entries, EntrySpec{Serial: s, Time: this})
			}
			switch c.Shape {
			case "v1":
				spec.Version = 0
			case "v2-no-number":
				spec.Version = 1
				spec.Exts = [][]byte{derExt(oidUnknown, false, derOctets([]byte("x")))}
			default:
				spec.Version = 1
				spec.Exts = [][]byte{derExt(oidCRLNumber, false, derInt(big.NewInt(number)))}
			}
			der, _ := spec.Build()
			return der
		}
		n2, this2 := int64(2), t2
		switch c.Shape {
		case "same-thisupdate":
			this2 = t1
		case "same-number":
			n2 = 1
		}
		origin.SetBytes(path, build([]*big.Int{old.Cert.SerialNumber, big.NewInt(77)}, t1, 1))
		cfg := VCfg{Mode: "crl_only", WorkDir: scratchDir("c11n"), Storage: c.Storage, SigMode: "verify", TrustedSigners: []string{caFile}, UpdateInterval: "10h"}
		if c.Source == "url" {
			cfg.CRLUrls = []string{origin.URL(path)}
		}
		v, err := Provision(cfg)
		if err != nil {
			r.Violate(focus+" provision-failed", fmt.Sprintf("numberless %+v: %v", c, err), c)
			return
		}
		defer v.Close()
		ch := func(l *Leaf) [][]*x509.Certificate { return [][]*x509.Certificate{{l.Cert, ca.Cert}} }
		a1, _ := v.Verify(ch(old))
		b1, _ := v.Verify(ch(neu))
		origin.SetBytes(path, build([]*big.Int{big.NewInt(78), neu.Cert.SerialNumber}, this2, n2))
		v.V.VerifCRLChecker().VerifUpdateCRLs(true)
		a2, _ := v.Verify(ch(old))
		b2, _ := v.Verify(ch(neu))
		f2, _ := v.Verify(ch(free))
		seq := fmt.Sprintf("%s,%s -> %s,%s,%s", a1, b1, a2, b2, f2)
		r.Eval(fmt.Sprintf("numberless/%+v", c), true)
		r.Count("numberless:" + c.Shape + ":" + seq)
		if a1 != "reject" || b1 != "accept" {
			r.Violate(focus+" numberless-first-list-wrong", fmt.Sprintf("%+v: before the refresh: listed %s, not yet listed %s", c, a1, b1), c)
			return
		}
		if a2 != "accept" && focus == "C11" {
			r.Violate("C11 superseded-entry-still-revokes shape="+c.Shape, fmt.Sprintf("%+v: the list naming the certificate was replaced by one that does not; the certificate is still %s (%s)", c, a2, seq), c)
		}
		if b2 != "reject" && focus != "C11" {
			r.Violate(focus+" refreshed-list-not-in-force shape="+c.Shape, fmt.Sprintf("%+v: the refreshed list names the certificate, verdict %s (%s)", c, b2, seq), c)
		}
		if f2 != "accept" && focus == "C11" {
			r.Violate("C11 unlisted-rejected shape="+c.Shape, fmt.Sprintf("%+v: a certificate no list names is %s", c, f2), c)
		}
	})
}

// c11Confusables: issuer names and serials chosen so that sloppy key construction confuses them: names that differ by
// trailing digits combined with serials split differently ("…CA 1" + 23 vs "…CA 12" + 3), a serial and its negative, a
// serial and the same digits under a name ending in the separator character. Only the listed (issuer, serial) pair may be
// reported revoked.
func c11Confusables(r *Run) {
	origin := NewOrigin()
	defer origin.Close()
	type pair struct {
		cnA    string
		listed int64
		cnB    string
		probe  int64
	}
	pairs := []pair{
		{"C11 Demo CA 1", 23, "C11 Demo CA 12", 3},
		{"C11 Demo CA 12", 3, "C11 Demo CA 1", 23},
		{"C11 Demo CA 1", 234, "C11 Demo CA 12", 34},
		{"C11 Demo CA_", 7, "C11 Demo CA", 7},
		{"C11 Demo CA", 17, "C11 Demo CA_1", 7},
		{"C11 Demo CA ", 5, "C11 Demo CA", 5},
		{"C11 Demo CA 0", 1, "C11 Demo CA ", 1},
		// the separator inside the serial's octets: "CA_G2" + 0x01 vs "CA" + "G2_\x01"
		{"C11 Demo CA_G2", 1, "C11 Demo CA", 0x47325F01},
		{"C11 Demo CA", 0x47325F01, "C11 Demo CA_G2", 1},
		{"C11 Demo CA_", 0x5F, "C11 Demo CA", 0x5F5F},
	}
	var jobs []struct {
		p       pair
		storage string
	}
	for _, p := range pairs {
		for _, st := range []string{"memory", "disk"} {
			jobs = append(jobs, struct {
				p       pair
				storage string
			}{p, st})
		}
	}
	c11NameVariants(r, origin)
	parallel(len(jobs), 8, func(i int) {
		j := jobs[i]
		mkCA := func(cn string) *CA {
			// the name is exactly one RDN (CN): the store's issuer string is "CN=<cn>"
			raw := mustMarshal(pkix.RDNSequence{{pkix.AttributeTypeAndValue{Type: asn1.ObjectIdentifier{2, 5, 4, 3}, Value: cn}}})
			return NewCA(CAOpts{EC: true, RawSubject: raw})
		}
		caA, caB := mkCA(j.p.cnA), mkCA(j.p.cnB)
		dir := scratchDir("c11c")
		fa, fb := writeFile(dir, "a.pem", certPEM(caA.Cert)), writeFile(dir, "b.pem", certPEM(caB.Cert))
		pa, pb := fmt.Sprintf("/c11c/%d/a.crl", i), fmt.Sprintf("/c11c/%d/b.crl", i)
		origin.SetBytes(pa, caA.MakeCRL(CRLOpts{Serials: []*big.Int{big.NewInt(j.p.listed)}, Number: 1}))
		origin.SetBytes(pb, caB.MakeCRL(CRLOpts{Serials: []*big.Int{big.NewInt(990001)}, Number: 1}))
		v, err := Provision(VCfg{Mode: "crl_only", WorkDir: scratchDir("c11cw"), Storage: j.storage, SigMode: "verify", TrustedSigners: []string{fa, fb},
			CRLUrls: []string{origin.URL(pa), origin.URL(pb)}, UpdateInterval: "10h"})
		if err != nil {
			r.Violate("C11 provision-failed", fmt.Sprintf("confusables %+v: %v", j, err), nil)
			return
		}
		defer v.Close()
		listed := caA.IssueLeaf(LeafOpts{Serial: big.NewInt(j.p.listed)})
		probe := caB.IssueLeaf(LeafOpts{Serial: big.NewInt(j.p.probe)})
		sameSerialOther := caB.IssueLeaf(LeafOpts{Serial: big.NewInt(j.p.listed)})
		vl, _ := v.Verify([][]*x509.Certificate{{listed.Cert, caA.Cert}})
		vp, _ := v.Verify([][]*x509.Certificate{{probe.Cert, caB.Cert}})
		vs, _ := v.Verify([][]*x509.Certificate{{sameSerialOther.Cert, caB.Cert}})
		r.Eval(fmt.Sprintf("confusable/%d", i), true)
		r.Count("confusable:" + vl + "/" + vp + "/" + vs)
		if vl != "reject" {
			r.Violate("C11 confusables-listed-accepted", fmt.Sprintf("%q serial %d is listed, verdict %s", j.p.cnA, j.p.listed, vl), j.p)
		}
		if vp != "accept" {
			r.Violate("C11 other-issuer-entry-revokes backend="+j.storage, fmt.Sprintf("only (%q, %d) is listed; the certificate (%q, %d) of another issuer is %s", j.p.cnA, j.p.listed, j.p.cnB, j.p.probe, vp), j.p)
		}
		if vs != "accept" {
			r.Violate("C11 other-issuer-entry-revokes backend="+j.storage, fmt.Sprintf("only (%q, %d) is listed; the certificate with the same serial under %q is %s", j.p.cnA, j.p.listed, j.p.cnB, vs), j.p)
		}
	})
}

// c11NameVariants: two issuers whose names are made of (nearly) the same attributes — another order of the RDNs, another
// grouping into multi-valued RDNs, an additional attribute crypto/x509 has no field for (DC, UID), a repeated CN — and the
// same serial number. Only the pair that is listed may be reported revoked: the issuer that counts is the certificate's
// issuer name as encoded, not a normalised rendering of it.
func c11NameVariants(r *Run, origin *Origin) {
	atv := func(oid asn1.ObjectIdentifier, v string) pkix.AttributeTypeAndValue {
		return pkix.AttributeTypeAndValue{Type: oid, Value: v}
	}
	oC, oO, oCN := asn1.ObjectIdentifier{2, 5, 4, 6}, asn1.ObjectIdentifier{2, 5, 4, 10}, asn1.ObjectIdentifier{2, 5, 4, 3}
	oDC, oUID := asn1.ObjectIdentifier{0, 9, 2342, 19200300, 100, 1, 25}, asn1.ObjectIdentifier{0, 9, 2342, 19200300, 100, 1, 1}
	c, o, cn := atv(oC, "DE"), atv(oO, "C11 Example Corp"), atv(oCN, "C11 Issuing CA")
	dc := pkix.AttributeTypeAndValue{Type: oDC, Value: asn1.RawValue{Tag: asn1.TagIA5String, Bytes: []byte("lab")}}
	uid := atv(oUID, "ca-7")
	base := pkix.RDNSequence{{c}, {o}, {cn}}
	variants := map[string]pkix.RDNSequence{
		"reversed":    {{cn}, {o}, {c}},
		"grouped":     {{c}, {o, cn}},
		"extra-dc":    {{c}, {o}, {cn}, {dc}},
		"extra-uid":   {{uid}, {c}, {o}, {cn}},
		"repeated-cn": {{c}, {o}, {atv(oCN, "C11 Other CA")}, {cn}},
		"o-before-c":  {{o}, {c}, {cn}},
	}
	var names []string
	for k := range variants {
		names = append(names, k)
	}
	sort.Strings(names)
	type job struct {
		variant, storage string
		swap             bool
	}
	var jobs []job
	for _, v := range names {
		for _, st := range []string{"memory", "disk"} {
			jobs = append(jobs, job{v, st, false}, job{v, st, true})
		}
	}
	parallel(len(jobs), 8, func(i int) {
		j := jobs[i]
		na, nb := base, variants[j.variant]
		if j.swap {
			na, nb = nb, na
		}
		caA := NewCA(CAOpts{EC: true, RawSubject: mustMarshal(na)})
		caB := NewCA(CAOpts{EC: true, RawSubject: mustMarshal(nb)})
		dir := scratchDir("c11v")
		fa, fb := writeFile(dir, "a.pem", certPEM(caA.Cert)), writeFile(dir, "b.pem", certPEM(caB.Cert))
		pa, pb := fmt.Sprintf("/c11v/%d/a.crl", i), fmt.Sprintf("/c11v/%d/b.crl", i)
		serial := big.NewInt(int64(4711 + i))
		origin.SetBytes(pa, caA.MakeCRL(CRLOpts{Serials: []*big.Int{serial}, Number: 1}))
		origin.SetBytes(pb, caB.MakeCRL(CRLOpts{Serials: []*big.Int{big.NewInt(990002)}, Number: 1}))
		v, err := Provision(VCfg{Mode: "crl_only", WorkDir: scratchDir("c11vw"), Storage: j.storage, SigMode: "verify", TrustedSigners: []string{fa, fb},
			CRLUrls: []string{origin.URL(pa), origin.URL(pb)}, UpdateInterval: "10h"})
		if err != nil {
			r.Violate("C11 provision-failed", fmt.Sprintf("name variants %+v: %v", j, err), nil)
			return
		}
		defer v.Close()
		listed := caA.IssueLeaf(LeafOpts{Serial: serial})
		other := caB.IssueLeaf(LeafOpts{Serial: serial})
		vl, _ := v.Verify([][]*x509.Certificate{{listed.Cert, caA.Cert}})
		vo, _ := v.Verify([][]*x509.Certificate{{other.Cert, caB.Cert}})
		r.Eval(fmt.Sprintf("name-variant/%s/%s/%v", j.variant, j.storage, j.swap), true)
		r.Count("name-variant:" + j.variant + ":" + vl + "/" + vo)
		if vl != "reject" {
			r.Violate("C11 confusables-listed-accepted", fmt.Sprintf("name variant %s (swap=%v, %s): the listed certificate is %s", j.variant, j.swap, j.storage, vl), j)
		}
		if vo != "accept" {
			r.Violate("C11 other-issuer-entry-revokes backend="+j.storage, fmt.Sprintf("name variant %s (swap=%v): serial %s is listed under one issuer name only; the certificate with the same serial under the other name (same attributes, %s) is %s",
				j.variant, j.swap, serial, j.variant, vo), j)
		}
	})
}
