package main

// C19 helpers: fixture (PKI, CRL files/urls, certificate files), running the two load paths of the
// real validator, dumping the provisioned configuration, the documented semantics of the options.

import (
	"context"
	"encoding/json"
	"fmt"
	"math/big"
	"os"
	"path/filepath"
	"strings"
	"sync/atomic"
	"time"

	"github.com/caddyserver/caddy/v2"
	"github.com/caddyserver/caddy/v2/caddyconfig/caddyfile"
	revocation "github.com/gr33nbl00d/caddy-revocation-validator"
	"github.com/gr33nbl00d/caddy-revocation-validator/config"
)

func c19MustJSON(v interface{}) []byte {
	b, err := json.Marshal(v)
	must(err)
	return b
}

type c19Fixture struct {
	Root        string
	origin      *Origin
	CertFiles   []string // readable certificates (unrelated CAs)
	CACertFile  string   // signer of the CRLs
	CA2CertFile string
	MissingFile string
	GarbageFile string
	CRLFileDER  string
	CRLFilePEM  string
	CRLFile2    string
	CRLUrlDER   string
	CRLUrlPEM   string
	CRLUrl2     string
	goodCerts   map[string]bool
	crlLocs     []string
	signerOf    map[string]string // CRL location -> certificate file of its signer
	n           atomic.Int64
}

func newC19Fixture() *c19Fixture {
	fx := &c19Fixture{Root: scratchDir("c19"), origin: NewOrigin(), goodCerts: map[string]bool{}}
	ca := NewCA(CAOpts{CN: "C19 CA", EC: true})
	ca2 := NewCA(CAOpts{CN: "C19 CA two", EC: true})
	files := filepath.Join(fx.Root, "files")
	must(os.Mkdir(files, 0755))
	for i := 0; i < 3; i++ {
		other := NewCA(CAOpts{CN: fmt.Sprintf("C19 other %d", i), EC: true})
		fx.CertFiles = append(fx.CertFiles, writeFile(files, fmt.Sprintf("other%d.crt", i), certPEM(other.Cert)))
	}
	fx.CACertFile = writeFile(files, "ca.crt", certPEM(ca.Cert))
	fx.CA2CertFile = writeFile(files, "ca2.crt", certPEM(ca2.Cert))
	for _, f := range append(append([]string{}, fx.CertFiles...), fx.CACertFile, fx.CA2CertFile) {
		fx.goodCerts[f] = true
	}
	fx.MissingFile = filepath.Join(files, "missing.crt")
	fx.GarbageFile = writeFile(files, "garbage.crt", []byte("this is not a certificate\n"))
	serials := []*big.Int{big.NewInt(7), big.NewInt(4711)}
	der := ca.MakeCRL(CRLOpts{Serials: serials})
	pemCRL := ca.MakeCRL(CRLOpts{Serials: serials, PEM: true})
	der2 := ca2.MakeCRL(CRLOpts{Serials: serials[:1]})
	fx.CRLFileDER = writeFile(files, "list.crl", der)
	fx.CRLFilePEM = writeFile(files, "list.pem", pemCRL)
	fx.CRLFile2 = writeFile(files, "list2.crl", der2)
	fx.origin.SetBytes("/list.crl", der)
	fx.origin.SetBytes("/list.pem", pemCRL)
	fx.origin.SetBytes("/list2.crl", der2)
	fx.CRLUrlDER, fx.CRLUrlPEM, fx.CRLUrl2 = fx.origin.URL("/list.crl"), fx.origin.URL("/list.pem"), fx.origin.URL("/list2.crl")
	fx.crlLocs = []string{fx.CRLFileDER, fx.CRLFilePEM, fx.CRLFile2, fx.CRLUrlDER, fx.CRLUrlPEM, fx.CRLUrl2}
	fx.signerOf = map[string]string{fx.CRLFileDER: fx.CACertFile, fx.CRLFilePEM: fx.CACertFile, fx.CRLUrlDER: fx.CACertFile, fx.CRLUrlPEM: fx.CACertFile,
		fx.CRLFile2: fx.CA2CertFile, fx.CRLUrl2: fx.CA2CertFile}
	return fx
}

func (fx *c19Fixture) Close() { fx.origin.Close() }

func (fx *c19Fixture) certFiles(n int) []string {
	all := []string{fx.CertFiles[0], fx.CACertFile, fx.CertFiles[2], fx.CertFiles[1]}
	return append([]string{}, all[:n]...)
}

// c19Env: what exists for one case. WorkDir is a fresh empty directory, AFile a regular file.
type c19Env struct {
	Root    string
	WorkDir string
	AFile   string
}

func (fx *c19Fixture) newEnv() *c19Env {
	root := filepath.Join(fx.Root, fmt.Sprintf("case%d", fx.n.Add(1)))
	wd := filepath.Join(root, "work")
	must(os.MkdirAll(wd, 0755))
	return &c19Env{Root: root, WorkDir: wd, AFile: writeFile(root, "afile", []byte("x"))}
}

type c19Load struct {
	Syntax string // caddyfile | json
	Op     string // model operation line ("" when the input never reaches the modelled code)
	Class  string // ok | error | panic
	Obs    string
	Err    string
	Eff    c19EffCfg
}

func c19SigName(m config.SignatureValidationMode) string {
	switch m {
	case config.SignatureValidationModeNone:
		return "none"
	case config.SignatureValidationModeVerifyLog:
		return "verify_log"
	case config.SignatureValidationModeVerify:
		return "verify"
	}
	return fmt.Sprintf("sig#%d", int(m))
}

func c19StorageName(s config.StorageType) string {
	switch s {
	case config.Memory:
		return "memory"
	case config.Disk:
		return "disk"
	}
	return fmt.Sprintf("storage#%d", int(s))
}

func c19FetchName(f config.CRLFetchMode) string {
	switch f {
	case config.CRLFetchModeActively:
		return "fetch_actively"
	case config.CRLFetchModeBackground:
		return "fetch_background"
	}
	return fmt.Sprintf("fetch#%d", int(f))
}

func c19Dump(v *revocation.CertRevocationValidator) c19EffCfg {
	e := c19EffCfg{Mode: modeName(v.ModeParsed)}
	if c := v.CRLConfig; c != nil {
		e.CRL = &c19EffCRL{WorkDir: c.WorkDir, Storage: c19StorageName(c.StorageTypeParsed), Sig: c19SigName(c.SignatureValidationModeParsed),
			IntervalNs: int64(c.UpdateIntervalParsed), Urls: c.CRLUrls, Files: c.CRLFiles, Signers: c.TrustedSignatureCertsFiles}
		if c.CDPConfig != nil {
			e.CRL.CDP = &c19EffCDP{Fetch: c19FetchName(c.CDPConfig.CRLFetchModeParsed), Strict: c.CDPConfig.CRLCDPStrict}
		}
	}
	if o := v.OCSPConfig; o != nil {
		e.OCSP = &c19EffOCSP{CacheNs: int64(o.DefaultCacheDurationParsed), Responders: o.TrustedResponderCertsFiles, Strict: o.OCSPAIAStrict}
	}
	return e
}

// provisionAndDump runs Provision on a filled validator, dumps, and always cleans up.
func c19Provision(v *revocation.CertRevocationValidator, l *c19Load) {
	ctx, cancel := caddy.NewContext(caddy.Context{Context: context.Background()})
	defer cancel()
	defer func() {
		defer func() { recover() }()
		v.Cleanup()
	}()
	var err error
	panicked := func() (p interface{}) {
		defer func() { p = recover() }()
		err = v.Provision(ctx)
		return nil
	}()
	switch {
	case panicked != nil:
		l.Class, l.Obs, l.Err = "panic", "panic-provision", fmt.Sprint(panicked)
	case err != nil:
		l.Class, l.Obs, l.Err = "error", "error-provision", err.Error()
	default:
		l.Class, l.Eff = "ok", c19Dump(v)
		l.Obs = l.Eff.String()
	}
}

func (fx *c19Fixture) envWords(e *c19Env, durStrings []string, crls []string) string {
	var durs []string
	seen := map[string]bool{}
	for _, s := range durStrings {
		if seen[s] {
			continue
		}
		seen[s] = true
		d, err := time.ParseDuration(s)
		if err != nil {
			durs = append(durs, hexs([]byte(s))+":x")
		} else {
			durs = append(durs, fmt.Sprintf("%s:%d", hexs([]byte(s)), int64(d)))
		}
	}
	var certs []string
	for _, f := range append(append([]string{}, fx.CertFiles...), fx.CACertFile, fx.CA2CertFile) {
		certs = append(certs, f)
	}
	return fmt.Sprintf("D=%s F=%s U=[%s] C=%s L=%s", c19HexList([]string{e.WorkDir}), c19HexList([]string{e.AFile}), strings.Join(durs, ","),
		c19HexList(certs), c19HexList(crls))
}

func c19AllArgs(ts []c19Tok, out *[]string) {
	for _, t := range ts {
		*out = append(*out, t.Key)
		*out = append(*out, t.Args...)
		if t.Block != nil {
			c19AllArgs(*t.Block, out)
		}
	}
}

func (fx *c19Fixture) loadCaddyfile(e *c19Env, ts []c19Tok, text string) *c19Load {
	l := &c19Load{Syntax: "caddyfile"}
	var strs []string
	c19AllArgs(ts, &strs)
	var b strings.Builder
	b.WriteString("conf caddyfile " + fx.envWords(e, strs, fx.okCRLsToks(ts)))
	c19EncToks(ts, &b)
	l.Op = b.String()
	v := &revocation.CertRevocationValidator{}
	var err error
	panicked := func() (p interface{}) {
		defer func() { p = recover() }()
		err = v.UnmarshalCaddyfile(caddyfile.NewTestDispenser(text))
		return nil
	}()
	switch {
	case panicked != nil:
		l.Class, l.Obs, l.Err = "panic", "panic-unmarshal", fmt.Sprint(panicked)
	case err != nil:
		l.Class, l.Obs, l.Err = "error", "error-unmarshal", err.Error()
	default:
		c19Provision(v, l)
	}
	return l
}

func c19Bit(b bool) string {
	if b {
		return "1"
	}
	return "0"
}

func (fx *c19Fixture) loadJSON(e *c19Env, text string) *c19Load {
	l := &c19Load{Syntax: "json"}
	v := &revocation.CertRevocationValidator{}
	// Caddy decodes module configuration with unknown fields disallowed (caddy.StrictUnmarshalJSON in LoadModule)
	if err := caddy.StrictUnmarshalJSON([]byte(text), v); err != nil {
		l.Class, l.Obs, l.Err = "error", "error-json", err.Error()
		return l
	}
	// the JSON form handed to the model is what the decoder produced
	var wd, st, iv, sg, fm, cd string
	var urls, files, sgn, rs []string
	var cs, as bool
	durs := []string{}
	sigMode := ""
	var signers []string
	if c := v.CRLConfig; c != nil {
		wd, st, iv, sg, urls, files, sgn = c.WorkDir, c.StorageType, c.UpdateInterval, c.SignatureValidationMode, c.CRLUrls, c.CRLFiles, c.TrustedSignatureCertsFiles
		durs = append(durs, iv)
		sigMode, signers = sg, sgn
		if c.CDPConfig != nil {
			fm, cs = c.CDPConfig.CRLFetchMode, c.CDPConfig.CRLCDPStrict
		}
	}
	if o := v.OCSPConfig; o != nil {
		cd, rs, as = o.DefaultCacheDuration, o.TrustedResponderCertsFiles, o.OCSPAIAStrict
		durs = append(durs, cd)
	}
	h := func(s string) string { return hexs([]byte(s)) }
	l.Op = fmt.Sprintf("conf json %s m=%s crl=%s wd=%s st=%s iv=%s sg=%s urls=%s files=%s sgn=%s cdp=%s fm=%s cs=%s ocsp=%s cd=%s rs=%s as=%s",
		fx.envWords(e, durs, fx.okCRLs(sigMode, signers)), h(v.Mode), c19Bit(v.CRLConfig != nil), h(wd), h(st), h(iv), h(sg), c19HexList(urls), c19HexList(files), c19HexList(sgn),
		c19Bit(v.CRLConfig != nil && v.CRLConfig.CDPConfig != nil), h(fm), c19Bit(cs), c19Bit(v.OCSPConfig != nil), h(cd), c19HexList(rs), c19Bit(as))
	c19Provision(v, l)
	return l
}

// crlOK: by construction of the fixture the CRLs are parseable and signed by CACertFile (list, list.pem) or
// CA2CertFile (list2); one is accepted unless the signature mode is 'verify' (the default) and its signer is not configured.
func (fx *c19Fixture) crlOK(loc, sigMode string, signers []string) bool {
	signer, known := fx.signerOf[loc]
	if !known {
		return false
	}
	if sigMode == "none" || sigMode == "verify_log" {
		return true
	}
	return c19InList(signer, signers)
}

func (fx *c19Fixture) okCRLs(sigMode string, signers []string) []string {
	var out []string
	for _, loc := range fx.crlLocs {
		if fx.crlOK(loc, sigMode, signers) {
			out = append(out, loc)
		}
	}
	return out
}

func (fx *c19Fixture) okCRLsToks(ts []c19Tok) []string {
	// the last crl_config block counts; inside it the last signature_validation_mode and all signer lines
	sig, signers := "", []string{}
	for _, t := range ts {
		if t.Key == "crl_config" && t.Block != nil && len(t.Args) == 0 {
			sig, signers = "", []string{}
			for _, u := range *t.Block {
				if u.Key == "signature_validation_mode" && len(u.Args) == 1 {
					sig = u.Args[0]
				}
				if u.Key == "trusted_signature_cert_file" && len(u.Args) == 1 {
					signers = append(signers, u.Args[0])
				}
			}
		}
	}
	return fx.okCRLs(sig, signers)
}

// documented: the README's meaning of the settings. Returns the expected effective configuration, or
// invalid != "" when the statement requires rejection (an update interval that is not positive is an
// invalid value: an updater cannot tick every zero or minus five minutes).
func (fx *c19Fixture) documented(c *c19ACfg, e *c19Env) (want c19EffCfg, invalid string) {
	enum := func(opt string, v *string, valid []string, dflt string) string {
		if v == nil || *v == "" {
			return dflt
		}
		if !c19InList(*v, valid) {
			if invalid == "" {
				invalid = "option=" + opt
			}
			return dflt
		}
		return *v
	}
	dur := func(opt string, v *string, dflt time.Duration) int64 {
		if v == nil || *v == "" {
			return int64(dflt)
		}
		d, err := time.ParseDuration(*v)
		if err != nil {
			if invalid == "" {
				invalid = "option=" + opt
			}
			return 0
		}
		return int64(d)
	}
	certs := func(opt string, l []string) {
		for _, f := range l {
			if !fx.goodCerts[f] && invalid == "" {
				invalid = "option=" + opt + " (file missing or not a certificate)"
			}
		}
	}
	want.Mode = enum("mode", c.Mode, c19Modes, "prefer_ocsp")
	if c.Crl != nil {
		k := c.Crl
		w := &c19EffCRL{Urls: k.Urls, Files: k.Files, Signers: k.Signers}
		if k.WorkDir != nil {
			w.WorkDir = *k.WorkDir
		}
		w.Storage = enum("storage_type", k.Storage, c19Storages, "disk")
		w.IntervalNs = dur("update_interval", k.Interval, 30*time.Minute)
		if w.IntervalNs <= 0 && invalid == "" {
			invalid = "option=update_interval (not positive)"
		}
		w.Sig = enum("signature_validation_mode", k.Sig, c19Sigs, "verify")
		certs("trusted_signature_certs_files", k.Signers)
		w.CDP = &c19EffCDP{Fetch: "fetch_actively"}
		if k.Cdp != nil {
			w.CDP.Fetch = enum("crl_fetch_mode", k.Cdp.Fetch, c19Fetches, "fetch_actively")
			if k.Cdp.Strict != nil {
				w.CDP.Strict = *k.Cdp.Strict
			}
		}
		want.CRL = w
	}
	want.OCSP = &c19EffOCSP{}
	if c.Ocsp != nil {
		want.OCSP.CacheNs = dur("default_cache_duration", c.Ocsp.Cache, 0)
		certs("trusted_responder_certs_files", c.Ocsp.Responders)
		want.OCSP.Responders = c.Ocsp.Responders
		if c.Ocsp.Strict != nil {
			want.OCSP.Strict = *c.Ocsp.Strict
		}
	}
	if invalid == "" && c19CrlEnabledMode(want.Mode) {
		switch {
		case want.CRL == nil || want.CRL.WorkDir != e.WorkDir:
			invalid = "option=work_dir (CRL checking needs an existing directory)"
		default:
			for _, loc := range append(append([]string{}, want.CRL.Urls...), want.CRL.Files...) {
				if !fx.crlOK(loc, want.CRL.Sig, want.CRL.Signers) {
					invalid = "configured-crl-not-acceptable"
				}
			}
		}
	}
	return want, invalid
}
