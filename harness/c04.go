package main

import (
	"crypto"
	"crypto/x509"
	"fmt"
	"math/big"
	"time"

	"github.com/gr33nbl00d/caddy-revocation-validator/core"
	"github.com/gr33nbl00d/caddy-revocation-validator/crl/crlrepository"
)

func init() { register("C04", runC04) }

// c04Region names the part of the CRL a byte offset lies in.
func c04Region(der, tbs []byte, off int) string {
	// der = 30 LL { tbs | outerAlg | sigBitString }
	hdr := 0
	for i := range der {
		if len(der)-i >= len(tbs) && string(der[i:i+len(tbs)]) == string(tbs) {
			hdr = i
			break
		}
	}
	switch {
	case off < hdr:
		return "outer-header"
	case off < hdr+len(tbs):
		return "tbs"
	}
	rest := der[hdr+len(tbs):]
	algLen := int(rest[1]) + 2
	p := off - hdr - len(tbs)
	switch {
	case p < 2:
		return "outer-alg-header"
	case p < 2+2+int(rest[3]):
		return "outer-alg-oid"
	case p < algLen:
		return "outer-alg-params"
	}
	q := p - algLen
	sig := rest[algLen:]
	hl := 2
	if sig[1]&0x80 != 0 {
		hl = 2 + int(sig[1]&0x7f)
	}
	switch {
	case q < hl:
		return "sig-header"
	case q == hl:
		return "sig-unused-bits"
	}
	return "sig-value"
}

func runC04(r *Run) {
	r.rule = "signer matrix x AKI form x chain shape on the real verification path vs the Lean candidate model; every single-bit mutation of small CRLs " +
		"(tbsCertList, signatureAlgorithm, signatureValue) through the real reader + verifier; unsupported algorithms; non-trivial = a candidate key exists"
	c04Matrix(r)
	c04BitFlips(r)
	// "comes into force" is a matter of histories too (first load, refresh, restart with another mode, provisioning): the
	// repository histories with the C04 reading of the acceptance oracle (whatever is in force under verify was signed by a
	// signer that was presented / trusted for that location)
	rule := r.rule
	runRepoProps(r, "C04")
	r.rule = rule + "; repository histories (serve / handshake / tick / provision / restart with another mode / close) with the acceptance oracle: " + r.rule
}

func c04BitFlips(r *Run) {
	pki := getRepoPKI()
	ca := pki.cas[1]
	rsaCA := NewCA(CAOpts{CN: "C04 RSA CA"})
	algs := []int{7, 2}
	if r.Thorough() {
		algs = []int{0, 1, 2, 3, 4, 5, 6, 7, 8, 9}
	}
	dir := scratchDir("c04")
	for _, ai := range algs {
		alg := sigAlgs[ai]
		signer := ca
		if !alg.EC {
			signer = rsaCA
		}
		spec := CRLSpec{Version: 1, Alg: alg, AlgParams: !alg.EC, IssuerRaw: signer.Cert.RawSubject,
			ThisUpdate: time.Now().Add(-time.Hour).UTC().Truncate(time.Second), Signer: signer.Key,
			Entries: []EntrySpec{{Serial: big.NewInt(77), Time: time.Now().Add(-2 * time.Hour).UTC().Truncate(time.Second)}},
			Exts:    [][]byte{derExt(oidCRLNumber, false, derInt(big.NewInt(3)))}}
		der, tbs := spec.Build()
		chains := core.NewCertificateChains(nil, []*x509.Certificate{signer.Cert})
		accept := func(b []byte) (bool, string) {
			p := writeTemp(dir, "f.crl", b)
			ir := implReadCRL(p)
			if ir.class != "ok" {
				return false, ir.class
			}
			_, err := crlrepository.VerifVerifyCRLSignature(ir.result, chains)
			return err == nil, "read-ok"
		}
		if ok, _ := accept(der); !ok {
			r.Violate("C04 genuine-crl-rejected alg="+alg.Name, "the unmodified CRL does not verify", nil)
			continue
		}
		for off := 0; off < len(der); off++ {
			for bit := 0; bit < 8; bit++ {
				m := append([]byte{}, der...)
				m[off] ^= 1 << uint(bit)
				ok, _ := accept(m)
				region := c04Region(der, tbs, off)
				r.Eval(fmt.Sprintf("flip/%s/%d/%d", alg.Name, off, bit), true)
				r.Count("flip:" + region)
				if ok {
					r.Count("flip-accepted:" + region)
					r.Violate("C04 bitflip-accepted region="+region, fmt.Sprintf("alg %s: flipping bit %d of byte %d (%s) still verifies", alg.Name, bit, off, region),
						map[string]string{"alg": alg.Name, "offset": fmt.Sprint(off), "bit": fmt.Sprint(bit), "crl_hex": hexs(der)})
				}
			}
		}
	}
	// unsupported algorithms: RSA-PSS and Ed25519 OIDs
	for name, oid := range map[string][]int{"rsa-pss": oidRSAPSS, "ed25519": oidEd25519} {
		spec := CRLSpec{Version: 1, Alg: sigAlgSpec{Name: name, OID: oid}, IssuerRaw: ca.Cert.RawSubject, ThisUpdate: time.Now().UTC().Truncate(time.Second)}
		der, _ := spec.Build()
		p := writeTemp(dir, "u.crl", der)
		ir := implReadCRL(p)
		r.Eval("unsupported/"+name, true)
		if ir.class == "ok" {
			r.Violate("C04 unsupported-algorithm-read alg="+name, "a CRL with an unsupported signature algorithm was read without error", nil)
		}
	}
	_ = crypto.SHA256
}
