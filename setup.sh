#!/bin/sh
# Builds the framework offline from files on disk: translator, Lean project (model, proofs, driver, audit), Go harness.
set -e
cd "$(dirname "$0")"
export GOFLAGS=-mod=mod GOPROXY=off GOSUMDB=off GOTOOLCHAIN=local CGO_ENABLED=0
mkdir -p .build evidence replays
(cd tools/extract && go build -o ../../.build/extract .)
rm -rf lean/Crv/Generated
./.build/extract -repo "${VERIF_REPO:-/repo}" -out lean/Crv/Generated
(cd lean && lake build Crv crvdriver Crv.AuditCmd)
cp "${VERIF_REPO:-/repo}/go.sum" harness/go.sum
(cd harness && go build -tags verif -o ../.build/harness .)
echo setup-ok
